package main

import (
	"fmt"
	"go/token"
	"go/types"
	"sort"
	"strings"

	"golang.org/x/tools/go/ssa"
)

func init() {
	register("C15", checkC15)
	notDecided["C15"] = "termination and panic-freedom of the generated lexer/GLL parser and of encoding/xml, encoding/json, x/net/html on arbitrary bytes; integer overflow in Unmarshal's float-to-integer conversions; panics inside user-supplied functions (they are converted to errors by the recover wrapper)."
	register("C19", checkC19)
	notDecided["C19"] = "the values filled in for concrete targets and documents; numeric overflow/truncation when a number is converted to a narrower field type; reflect preconditions that are established by construction or by the caller rather than by a local guard (listed in the evidence)."
}

func reflectMethod(c *ssa.Call) string {
	sc := staticCallee(c)
	if sc == nil {
		return ""
	}
	n := funcFullName(sc)
	if strings.HasPrefix(n, "(reflect.Value).") {
		return strings.TrimPrefix(n, "(reflect.Value).")
	}
	return ""
}

// guardedByReflect: block b is guarded by recv.<method>() having polarity pol.
func guardedByReflect(b *ssa.BasicBlock, recv ssa.Value, method string, pol bool) bool {
	for _, a := range guardAtoms(b) {
		c, ok := a.V.(*ssa.Call)
		if !ok || reflectMethod(c) != method || a.Pol != pol {
			continue
		}
		if c.Call.Args[0] == recv {
			return true
		}
	}
	return false
}

func checkC15(w *World) {
	const P = "C15"
	f := w.Facts()
	r := w.Roles()
	docRule(P, "R15.1", "D reflect guards", "check-before-use on the user-supplied Unmarshal target: the reflect.Value obtained from the caller's value is asked for its Type only under IsValid; every Elem() of the pointer-stripping walk is guarded by !IsNil on the same value; Addr() is guarded by CanAddr; every Set is guarded by CanSet on the same value and by an assignability test of the destination type.")
	docRule(P, "R15.2", "P", "recover coverage: exec.Exec reaches the dispatcher only through a function that defers a closure calling recover() and assigning the converted panic to its error result; Exec returns (nil, err) when that error is non-nil and (result, nil) otherwise — never (nil, nil) by construction of the seeded result.")
	docRule(P, "R15.3", "D", "panic sources in package exec: every slice or index expression with a non-constant index is a range/ascending-loop index below the length, is guarded by a comparison with the length, is the result of a clamp, or is allow-listed by role with the grammar fact that justifies it; integer division: C06 R06.5; unclamped user-derived bounds: C07 R07.3; search index: C01 R01.6.")
	docRule(P, "R15.4", "R", "unbounded recursion: the store's event consumer is not recursive per event (C10 R10.1).")
	docRule(P, "R15.5", "D", "a Result obtained from a call through a Function value is stored into the context only under a non-nil test whose failing branch returns an error (a user function returning (nil, nil) must not make Exec return (nil, nil)).")
	docRule(P, "R15.6", "F", "parser adapters: an error from the underlying decoder/parser is returned to the caller, never replaced by a node or an end event (XML: C09 R09.4; the same for the JSON adapter and ReadHtml).")

	w.reflectGuards(P)

	// R15.2
	exec := w.member("exec", "Exec")
	if exec == nil {
		w.undecided(P, "R15.2", "exec.Exec", 0, "not found")
	} else {
		// functions on the static path from Exec to the dispatcher
		direct := false
		var wrappers []*ssa.Function
		allInstrs(exec, func(in ssa.Instruction) {
			c, ok := in.(*ssa.Call)
			if !ok {
				return
			}
			sc := staticCallee(c)
			if sc == nil || fnPkgKey(sc) != "exec" {
				return
			}
			if sc == r.ExecContext {
				direct = true
				return
			}
			if _, isHandler := f.handlersByFn()[sc]; isHandler {
				direct = true
				return
			}
			for g := range staticReach(sc, func(x *ssa.Function) bool { return fnPkgKey(x) == "exec" }) {
				if g == r.ExecContext {
					wrappers = append(wrappers, sc)
				}
			}
		})
		okWrap := len(wrappers) > 0
		detail := ""
		for _, wf := range wrappers {
			rec := false
			allInstrs(wf, func(in ssa.Instruction) {
				d, ok := in.(*ssa.Defer)
				if !ok {
					return
				}
				cl := d.Call.StaticCallee()
				if cl == nil {
					return
				}
				callsRecover, assignsErr := false, false
				allInstrs(cl, func(in2 ssa.Instruction) {
					if c, ok := in2.(*ssa.Call); ok {
						if b, ok := c.Call.Value.(*ssa.Builtin); ok && b.Name() == "recover" {
							callsRecover = true
						}
					}
					if st, ok := in2.(*ssa.Store); ok {
						if _, isFV := st.Addr.(*ssa.FreeVar); isFV && !isNilConst(st.Val) {
							assignsErr = true
						}
					}
				})
				if callsRecover && assignsErr && in.Block() == wf.Blocks[0] {
					rec = true
				}
			})
			if !rec {
				okWrap = false
			}
			detail += fmt.Sprintf("%s defers recover-and-convert in its entry block: %v; ", wf.Name(), rec)
		}
		w.check(P, "R15.2", "Exec reaches evaluation only through the recover wrapper", exec.Pos(), okWrap && !direct, fmt.Sprintf("%sdirect calls of the dispatcher or handlers from Exec: %v", detail, direct))
		// return discipline
		okRet := true
		nRet := 0
		allInstrs(exec, func(in ssa.Instruction) {
			ret, ok := in.(*ssa.Return)
			if !ok || len(ret.Results) != 2 {
				return
			}
			nRet++
			if isNilConst(ret.Results[0]) && isNilConst(ret.Results[1]) {
				okRet = false
			}
			if isNilConst(ret.Results[0]) {
				// must be under err != nil
				g := false
				for _, a := range guardAtoms(ret.Block()) {
					if bo, ok := a.V.(*ssa.BinOp); ok && isNilConst(bo.Y) && bo.X == ret.Results[1] && ((bo.Op == token.NEQ && a.Pol) || (bo.Op == token.EQL && !a.Pol)) {
						g = true
					}
				}
				if !g {
					okRet = false
				}
			}
		})
		w.check(P, "R15.2", "Exec never returns (nil, nil)", exec.Pos(), okRet && nRet >= 2, fmt.Sprintf("%d returns; a nil result is returned only together with the non-nil error it was tested against: %v", nRet, okRet))
	}
	w.floor(P, "R15.2", 2)

	// R15.3 bounds discipline
	w.boundsDiscipline(P, f, r)

	// R15.4
	sf := w.StoreFacts()
	_ = sf
	nrec := 0
	w.forAllFuncs("store", func(fn *ssa.Function) {
		reaches := false
		for g := range staticReach(fn, func(x *ssa.Function) bool { return fnPkgKey(x) == "store" }) {
			allInstrs(g, func(in ssa.Instruction) {
				if c, ok := in.(ssa.CallInstruction); ok && c.Common().IsInvoke() && c.Common().Method.Name() == "Pull" {
					reaches = true
				}
			})
		}
		if !reaches {
			return
		}
		nrec++
		rec := false
		allInstrs(fn, func(in ssa.Instruction) {
			if c, ok := in.(*ssa.Call); ok {
				if sc := staticCallee(c); sc != nil && fnPkgKey(sc) == "store" {
					for g := range staticReach(sc, func(x *ssa.Function) bool { return fnPkgKey(x) == "store" }) {
						if g == fn {
							rec = true
						}
					}
				}
			}
		})
		w.check(P, "R15.4", "event consumer "+fn.Name()+" is not recursive", fn.Pos(), !rec, fmt.Sprintf("recursive: %v (one stack frame per event overflows the goroutine stack on large flat documents and aborts the process)", rec))
	})
	w.floor(P, "R15.4", 2)

	// R15.5
	if h := f.Handlers["FunctionCall"]; h != nil {
		n := 0
		allInstrs(h.Fn, func(in ssa.Instruction) {
			c, ok := in.(*ssa.Call)
			if !ok || c.Call.IsInvoke() || staticCallee(c) != nil {
				return
			}
			if _, isB := c.Call.Value.(*ssa.Builtin); isB {
				return
			}
			var res ssa.Value
			for _, rr := range referrers(c) {
				if ex, ok := rr.(*ssa.Extract); ok && ex.Index == 0 {
					res = ex
				}
			}
			if res == nil {
				return
			}
			n++
			for _, st := range resultStores(h.Fn, r) {
				if st.Val != res {
					continue
				}
				g := false
				for _, a := range guardAtoms(st.Block()) {
					if bo, ok := a.V.(*ssa.BinOp); ok && bo.X == res && isNilConst(bo.Y) && ((bo.Op == token.EQL && !a.Pol) || (bo.Op == token.NEQ && a.Pol)) {
						g = true
					}
				}
				w.check(P, "R15.5", "result of a function value stored as the expression result", st.Pos(), g, fmt.Sprintf("stored only under a non-nil test: %v", g))
			}
		})
		if n == 0 {
			w.undecided(P, "R15.5", "function-call handler", h.Fn.Pos(), "no dynamic call of a function value found")
		}
	}
	if hv := f.Handlers["VariableReference"]; hv != nil {
		for _, st := range resultStores(hv.Fn, r) {
			g := false
			for _, a := range guardAtoms(st.Block()) {
				if bo, ok := a.V.(*ssa.BinOp); ok && isNilConst(bo.Y) && bo.X == st.Val && ((bo.Op == token.EQL && !a.Pol) || (bo.Op == token.NEQ && a.Pol)) {
					g = true
				}
			}
			w.check(P, "R15.5", "variable value stored as the expression result", st.Pos(), g, fmt.Sprintf("stored only under a non-nil test of the value itself: %v (a variable bound to a nil Result would make Exec return (nil, nil))", g))
		}
	}
	w.floor(P, "R15.5", 2)

	// R15.6
	if jp := w.pullOf("ReadJson"); jp != nil {
		w.adapterError(P, "R15.6", jp, "Token")
	} else {
		w.undecided(P, "R15.6", "JSON adapter", 0, "not found")
	}
	if xp := w.pullOf("ReadXml"); xp != nil {
		w.adapterError(P, "R15.6", xp, "Token")
	}
	if rh := w.member("parser", "ReadHtml"); rh != nil {
		ok := false
		allInstrs(rh, func(in ssa.Instruction) {
			ret, isRet := in.(*ssa.Return)
			if !isRet || len(ret.Results) != 2 {
				return
			}
			if ex, isEx := ret.Results[1].(*ssa.Extract); isEx && isNilConst(ret.Results[0]) {
				if c, isC := ex.Tuple.(*ssa.Call); isC && staticCallee(c) != nil && strings.HasSuffix(funcFullName(staticCallee(c)), "html.Parse") {
					ok = true
				}
			}
		})
		w.check(P, "R15.6", "ReadHtml returns the parser's error", rh.Pos(), ok, fmt.Sprintf("%v", ok))
	}
	w.floorSites(P, "R15.6", 3)
	// the root is its own parent with position 0: the evaluator's root tests and the store's surplus-end handling rely on it
	w.include(P, "C10", "R10.7")
	w.include(P, "C09", "R09.5") // an unknown or undecodable encoding label is an error of the charset reader, not a nil reader handed to the decoder
	// no package-level state is written by the entry points: an unsynchronised cache (a plain map) written by Exec or
	// Unmarshal aborts the whole process with "concurrent map writes", which no recover() can turn into an error
	w.include(P, "C13", "R13.2")
	// BuildExpr returns an error for what it cannot parse: the hand-written front end recovers, indexes within bounds
	// and reads the forest through the accessors that tolerate ambiguity
	w.include(P, "C08", "R08.5", "R08.6", "R08.13")
}

// adapterError: the decoder's error is returned with a nil node under err != nil.
func (w *World) adapterError(P, rule string, pull *ssa.Function, method string) {
	tokenCall, isHelper := w.tokenSource(pull, method, 0)
	if tokenCall == nil {
		w.undecided(P, rule, "decoder error in "+pull.String(), pull.Pos(), "no decoder call")
		return
	}
	if isHelper {
		// the token comes through a helper of the adapter: the helper itself has to hand the decoder's error on
		h := staticCallee(tokenCall)
		_, hRet, hOrder, _ := w.errPropagation(h, method, 1)
		w.check(P, rule, "decoder error in "+h.String(), h.Pos(), hRet && hOrder, fmt.Sprintf("the token helper returns the decoder's error unchanged when it is not nil: %v; returns a token only with a nil error: %v", hRet, hOrder))
	}
	errIdx := staticCallee(tokenCall).Signature.Results().Len() - 1
	var errV ssa.Value
	for _, rr := range referrers(tokenCall) {
		if ex, ok := rr.(*ssa.Extract); ok && ex.Index == errIdx {
			errV = ex
		}
	}
	okRet := false
	allInstrs(pull, func(in ssa.Instruction) {
		ret, ok := in.(*ssa.Return)
		if !ok || len(ret.Results) != 3 || !isNilConst(ret.Results[0]) {
			return
		}
		// the decoder's error itself, or a variable that holds it unless it was replaced by another non-nil error on
		// the way (EOF inside a container becomes ErrUnexpectedEOF)
		carries := ret.Results[2] == errV
		if phi, isPhi := ret.Results[2].(*ssa.Phi); isPhi {
			for _, e := range phi.Edges {
				if e == errV {
					carries = true
				}
			}
		}
		if !carries {
			return
		}
		for _, a := range guardAtoms(ret.Block()) {
			if bo, ok := a.V.(*ssa.BinOp); ok && bo.X == errV && isNilConst(bo.Y) && ((bo.Op == token.NEQ && a.Pol) || (bo.Op == token.EQL && !a.Pol)) {
				okRet = true
			}
		}
	})
	// no node-producing return reachable with err != nil
	leak := false
	allInstrs(pull, func(in ssa.Instruction) {
		ret, ok := in.(*ssa.Return)
		if !ok || len(ret.Results) != 3 {
			return
		}
		if !tokenCall.Block().Dominates(ret.Block()) || tokenCall.Block() == ret.Block() {
			return
		}
		if ret.Results[2] == errV {
			return
		}
		if !isNilConst(ret.Results[2]) {
			return // another error
		}
		tested := false
		for _, a := range guardAtoms(ret.Block()) {
			if bo, ok := a.V.(*ssa.BinOp); ok && bo.X == errV && isNilConst(bo.Y) && ((bo.Op == token.NEQ && !a.Pol) || (bo.Op == token.EQL && a.Pol)) {
				tested = true
			}
		}
		if !tested {
			leak = true
		}
	})
	w.check(P, rule, "decoder error in "+pull.String(), tokenCall.Pos(), okRet && !leak, fmt.Sprintf("returns (nil, _, err) under err != nil: %v; a success return reachable without the err == nil test: %v", okRet, leak))
}

func (w *World) reflectGuards(P string) {
	um := w.member("exec", "Unmarshal")
	if um == nil {
		w.undecided(P, "R15.1", "exec.Unmarshal", 0, "not found")
		return
	}
	closure := staticReach(um, func(x *ssa.Function) bool { return fnPkgKey(x) == "exec" && x.Name() != "Exec" })
	var fns []*ssa.Function
	for g := range closure {
		fns = append(fns, g)
	}
	sort.Slice(fns, func(i, j int) bool { return fns[i].Name() < fns[j].Name() })
	nUser, nSet := 0, 0
	byConstruction := 0
	for _, fn := range fns {
		// values derived from reflect.ValueOf(parameter): the user-supplied target
		userVals := map[ssa.Value]bool{}
		allInstrs(fn, func(in ssa.Instruction) {
			c, ok := in.(*ssa.Call)
			if !ok || staticCallee(c) == nil || funcFullName(staticCallee(c)) != "reflect.ValueOf" {
				return
			}
			if _, isParam := stripConv(c.Call.Args[0]).(*ssa.Parameter); isParam {
				userVals[c] = true
			}
		})
		// close under phi and Elem()
		for changed := true; changed; {
			changed = false
			allInstrs(fn, func(in ssa.Instruction) {
				switch x := in.(type) {
				case *ssa.Phi:
					if userVals[x] {
						return
					}
					for _, e := range x.Edges {
						if userVals[e] {
							userVals[x] = true
							changed = true
						}
					}
				case *ssa.Call:
					if userVals[x] {
						return
					}
					if m := reflectMethod(x); m == "Elem" && userVals[x.Call.Args[0]] {
						userVals[x] = true
						changed = true
					}
				}
			})
		}
		allInstrs(fn, func(in ssa.Instruction) {
			c, ok := in.(*ssa.Call)
			if !ok {
				return
			}
			m := reflectMethod(c)
			if m == "" {
				return
			}
			recv := c.Call.Args[0]
			switch m {
			case "Type", "Kind":
				if userVals[recv] {
					if _, isCall := recv.(*ssa.Call); isCall && funcFullName(staticCallee(recv.(*ssa.Call))) == "reflect.ValueOf" {
						nUser++
						g := guardedByReflect(c.Block(), recv, "IsValid", true)
						w.check(P, "R15.1", "Type of the user-supplied target in "+fn.Name(), c.Pos(), g, fmt.Sprintf("guarded by IsValid(): %v (Unmarshal(r, nil) gives the zero Value, whose Type() panics)", g))
					}
				}
			case "Elem":
				if userVals[recv] {
					nUser++
					g := guardedByReflect(c.Block(), recv, "IsNil", false)
					w.check(P, "R15.1", "Elem of the user-supplied target in "+fn.Name(), c.Pos(), g, fmt.Sprintf("guarded by !IsNil(): %v (a nil *T target panics in Elem/Addr later)", g))
				} else {
					byConstruction++
				}
			case "Addr":
				nUser++
				g := guardedByReflect(c.Block(), recv, "CanAddr", true)
				w.check(P, "R15.1", "Addr in "+fn.Name(), c.Pos(), g, fmt.Sprintf("guarded by CanAddr(): %v (a struct passed by value is not addressable)", g))
			case "SetString", "SetBool", "SetInt", "SetUint", "SetFloat", "SetComplex", "SetBytes", "SetLen", "SetCap", "SetPointer", "SetZero", "SetMapIndex", "Grow":
				// the typed setters (and Grow) panic on a value that is not settable exactly as Set does
				fresh := false
				if rc, ok := recv.(*ssa.Call); ok && reflectMethod(rc) == "Elem" {
					if nc, ok := rc.Call.Args[0].(*ssa.Call); ok && staticCallee(nc) != nil && funcFullName(staticCallee(nc)) == "reflect.New" {
						fresh = true
					}
				}
				if !fresh {
					nSet++
					canSet := guardedByReflect(c.Block(), recv, "CanSet", true)
					if p, isParam := recv.(*ssa.Parameter); isParam && !canSet {
						idx := -1
						for i, x := range fn.Params {
							if x == p {
								idx = i
							}
						}
						sites := w.callersOf(fn)
						all := idx >= 0 && len(sites) > 0
						for _, site := range sites {
							if idx < 0 || idx >= len(site.Call.Args) || !guardedByReflect(site.Block(), site.Call.Args[idx], "CanSet", true) {
								all = false
							}
						}
						canSet = all
					}
					w.check(P, "R15.1", m+" in "+fn.Name(), c.Pos(), canSet, fmt.Sprintf("guarded by CanSet() on the same value: %v (an unexported field, or a target passed by value, is not settable and the call panics outside any recover)", canSet))
				}
			case "Set":
				nSet++
				canSet := guardedByReflect(c.Block(), recv, "CanSet", true)
				assignable := false
				for _, a := range guardAtoms(c.Block()) {
					if gc, ok := a.V.(*ssa.Call); ok && a.Pol && gc.Call.IsInvoke() && gc.Call.Method.Name() == "AssignableTo" {
						assignable = true
					}
					// the test made by a helper of the package that hands back an error: reached only when that error
					// is nil, and the helper returns a nil error only under a successful AssignableTo test
					if bo, ok := a.V.(*ssa.BinOp); ok && isNilConst(bo.Y) && ((bo.Op == token.NEQ && !a.Pol) || (bo.Op == token.EQL && a.Pol)) {
						if ex, ok := bo.X.(*ssa.Extract); ok {
							if hc, ok := ex.Tuple.(*ssa.Call); ok {
								if g := staticCallee(hc); g != nil && fnPkgKey(g) == "exec" && len(g.Blocks) > 0 {
									all, n := true, 0
									allInstrs(g, func(in2 ssa.Instruction) {
										ret, isRet := in2.(*ssa.Return)
										if !isRet || len(ret.Results) == 0 || ex.Index >= len(ret.Results) || !isNilConst(ret.Results[ex.Index]) {
											return
										}
										n++
										tested := false
										for _, a2 := range guardAtoms(ret.Block()) {
											if gc2, ok := a2.V.(*ssa.Call); ok && a2.Pol && gc2.Call.IsInvoke() && gc2.Call.Method.Name() == "AssignableTo" {
												tested = true
											}
										}
										if !tested {
											all = false
										}
									})
									if all && n > 0 {
										assignable = true
									}
								}
							}
						}
					}
				}
				// Set on a fresh reflect.New(...).Elem() needs no guard
				fresh := false
				if rc, ok := recv.(*ssa.Call); ok && reflectMethod(rc) == "Elem" {
					if nc, ok := rc.Call.Args[0].(*ssa.Call); ok && staticCallee(nc) != nil && funcFullName(staticCallee(nc)) == "reflect.New" {
						fresh = true
					}
				}
				if fresh {
					byConstruction++
					w.check(P, "R15.1", "Set on a freshly allocated value in "+fn.Name(), c.Pos(), true, "reflect.New(T).Elem() is settable and of type T by construction")
				} else {
					if p, isParam := recv.(*ssa.Parameter); isParam && !(canSet && assignable) {
						// a helper that is handed the value to set: the guards hold at every call
						idx := -1
						for i, x := range fn.Params {
							if x == p {
								idx = i
							}
						}
						sites := w.callersOf(fn)
						all := idx >= 0 && len(sites) > 0
						for _, site := range sites {
							if idx < 0 || idx >= len(site.Call.Args) {
								all = false
								continue
							}
							cs := guardedByReflect(site.Block(), site.Call.Args[idx], "CanSet", true)
							as := false
							for _, a := range guardAtoms(site.Block()) {
								if gc, ok := a.V.(*ssa.Call); ok && gc.Call.IsInvoke() && gc.Call.Method.Name() == "AssignableTo" && a.Pol {
									as = true
								}
							}
							if !cs || !as {
								all = false
							}
						}
						if all {
							canSet, assignable = true, true
						}
					}
					w.check(P, "R15.1", "Set in "+fn.Name(), c.Pos(), canSet && assignable, fmt.Sprintf("guarded by CanSet() on the same value: %v; by an AssignableTo test: %v", canSet, assignable))
				}
			}
		})
	}
	w.floorSites(P, "R15.1", 5)
	_ = nUser
	_ = nSet
}

// boundsDiscipline scans package exec for non-constant slice/index expressions.
func (w *World) boundsDiscipline(P string, f *Facts, r *Roles) {
	// allow-listed by role (the handler of a production whose token shape gives the bound), never by function name
	allowNT := map[string]string{
		"Literal":                   "literal[1:len-1]: the Literal tokens (singlequote/doublequote) are delimited by two quote characters, so len >= 2",
		"NodeTestNodeTypeNoArgTest": "nodeType[:LastIndex(\"(\")]: the production NodeType \"(\" \")\" contains the parenthesis",
	}
	allow := map[string]string{}
	for fn, nts := range f.handlersByFn() {
		for _, nt := range nts {
			if why, ok := allowNT[nt]; ok {
				allow[fn.String()] = why
			}
		}
	}
	n := 0
	w.forAllFuncs("exec", func(fn *ssa.Function) {
		if strings.HasSuffix(fn.Name(), "Less") || strings.HasSuffix(fn.Name(), "Swap") {
			return // sort.Interface methods are called by sort with valid indices
		}
		allInstrs(fn, func(in ssa.Instruction) {
			var idxs []ssa.Value
			var base ssa.Value
			kind := ""
			switch x := in.(type) {
			case *ssa.IndexAddr:
				idxs, base, kind = []ssa.Value{x.Index}, x.X, "index"
			case *ssa.Index:
				idxs, base, kind = []ssa.Value{x.Index}, x.X, "index"
			case *ssa.Slice:
				if x.Low != nil {
					idxs = append(idxs, x.Low)
				}
				if x.High != nil {
					idxs = append(idxs, x.High)
				}
				base, kind = x.X, "slice"
			default:
				return
			}
			for _, idx := range idxs {
				if k, isC := constInt(idx); isC {
					// constant index into the flattened children / args: covered by C08 R08.2 and C07 R07.5;
					// constant index into a node-set needs a length guarantee here or at every call site
					if !isCursorSlice(base.Type(), r) {
						continue
					}
					if _, isAlloc := base.(*ssa.Alloc); isAlloc {
						continue
					}
					// a slice made with a constant length that covers the index
					if mk, isMake := stripConv(base).(*ssa.MakeSlice); isMake {
						if n, isK := constInt(mk.Len); isK && n > k {
							continue
						}
					}
					n++
					need := k + 1
					if kind == "slice" {
						need = k // s[k:] and s[:k] are valid when len(s) == k
					}
					okLen := need == 0 || lenAtLeast(in.Block(), base, need)
					where := "in this function"
					if !okLen {
						if p, isParam := base.(*ssa.Parameter); isParam {
							okLen, where = w.allCallersGuaranteeLen(fn, p, need), "at every call site"
						}
					}
					w.check(P, "R15.3", fmt.Sprintf("constant index into a node-set in %s", fn.Name()), in.Pos(), okLen, fmt.Sprintf("element %d is read; the node-set is known to have more than %d elements %s: %v (an empty node-set makes a well-typed query fail with 'xpath query panic')", k, k, where, okLen))
					continue
				}
				n++
				why := ""
				switch {
				case ascendingCounter(idx) || descendingCounter(idx) || isStringRangeIndex(idx, base):
					why = "loop counter bounded by the loop condition"
				case isLenMinusConst(idx, base):
					why = "len(x) - k with a non-empty guard"
					if !nonEmptyGuard(in.Block(), base) {
						why = ""
					}
				case lenGuarded(in.Block(), idx, base):
					why = "guarded by a comparison with the length"
				case kind == "slice" && leLen(idx, base, in.Block(), map[ssa.Value]bool{}, 0):
					why = "slice bound proven <= len by induction (0, +1 under a `< len` guard, + a scan length of the remaining suffix)"
				case isPosEqGuardedSlice(in, idx):
					why = "search index used on the matching path"
				case isIndexCallResult(idx) && nonNegativeGuard(in.Block(), idx):
					why = "result of strings.Index on the sliced string, tested non-negative"
				default:
					if c, ok := idx.(*ssa.Call); ok {
						if okc, _ := w.isClamped(c); okc {
							why = "result of a clamp"
						}
					}
					if why == "" && isPlusLen(idx) && nonNegativeGuard(in.Block(), idx.(*ssa.BinOp).X) {
						why = "match position plus len(substring) of a successful strings.Index"
					}
				}
				if why == "" && kind == "index" {
					// len(x) - 1 - n with n the counter of an ascending loop over x (the mirror image of the element)
					if bo, ok := idx.(*ssa.BinOp); ok && bo.Op == token.SUB && isLenMinusConst(bo.X, nil) && ascendingCounter(bo.Y) {
						if k, _ := constInt(bo.X.(*ssa.BinOp).Y); k == 1 {
							lenArg := bo.X.(*ssa.BinOp).X.(*ssa.Call).Call.Args[0]
							if (stripConv(lenArg) == stripConv(base) || sameObj(lenArg, base)) && lenGuarded(in.Block(), bo.Y, base) {
								why = "len(x) - 1 - n with n the counter of an ascending loop bounded by len(x)"
							}
						}
					}
				}
				if why == "" && fn.Parent() != nil && literalBoundSafe(fn, idx, base) {
					why = "bound and string are parameters of a function literal; where the helper it was handed to calls it, the bound is the (non-negative) position strings.Index found in the string passed with it, that position plus the length of the match, or guarded by the length"
				}
				if why == "" && kind == "index" && w.paramIndexSafeAtCallers(fn, idx, base) {
					why = "index and slice are parameters; at every call site the index is the counter of a loop over the slice passed with it"
				}
				if why == "" {
					if a, ok := allow[fn.String()]; ok {
						why = "allow-listed by role: " + a
					}
				}
				w.check(P, "R15.3", fmt.Sprintf("%s expression with a computed bound in %s", kind, fn.Name()), in.Pos(), why != "", orElse(why, "no bounds argument found: a computed index without a length guard can panic ('xpath query panic')"))
			}
		})
	})
	w.floorSites(P, "R15.3", 20)
	_ = n
}

// isStringRangeIndex: idx is the index variable of `for i := range s` over the same string.
func isStringRangeIndex(idx, base ssa.Value) bool {
	ex, ok := idx.(*ssa.Extract)
	if !ok || ex.Index != 1 {
		return false
	}
	nx, ok := ex.Tuple.(*ssa.Next)
	if !ok || !nx.IsString {
		return false
	}
	rg, ok := nx.Iter.(*ssa.Range)
	return ok && rg.X == base
}

func isCursorSlice(t types.Type, r *Roles) bool {
	sl, ok := t.Underlying().(*types.Slice)
	return ok && r.Cursor != nil && types.Identical(sl.Elem(), r.Cursor)
}

// lenAtLeast: block b is reached only when len(base) >= n was established.
func lenAtLeast(b *ssa.BasicBlock, base ssa.Value, n int64) bool {
	min, ok := minFeasible(guardAtoms(b), func(v ssa.Value) bool {
		c, ok := stripConv(v).(*ssa.Call)
		return ok && isLenOf(c, nil) && (stripConv(c.Call.Args[0]) == stripConv(base) || sameObj(c.Call.Args[0], base))
	})
	return ok && min >= n
}

// minFeasible evaluates the guards that compare the subject (an integer-valued expression recognised by isSubject,
// also through variables that merely hold it) with constants for every candidate value 0..32 and returns the
// smallest value that satisfies all of them: exact for any mix of ==, !=, <, <=, >, >= in either operand order.
func minFeasible(atoms []atom, isSubject func(ssa.Value) bool) (int64, bool) {
	cons, _ := intConstraints(atoms, isSubject)
	if len(cons) == 0 {
		return 0, true
	}
	for v := int64(0); v <= 32; v++ {
		if satisfies(cons, v) {
			return v, true
		}
	}
	return 0, false // no feasible value: the block is unreachable
}

type intCon struct {
	op   token.Token
	k    int64
	pol  bool
	flip bool
}

// intConstraints extracts the comparisons of the subject with constants; pure reports that the atoms contain
// nothing else (phis of short-circuit conditions, which guardAtoms lists next to their expansion, aside).
func intConstraints(atoms []atom, isSubject func(ssa.Value) bool) (cons []intCon, pure bool) {
	pure = true
	for _, a := range atoms {
		if _, isPhi := a.V.(*ssa.Phi); isPhi {
			continue
		}
		bo, ok := a.V.(*ssa.BinOp)
		if !ok {
			pure = false
			continue
		}
		switch bo.Op {
		case token.EQL, token.NEQ, token.LSS, token.LEQ, token.GTR, token.GEQ:
		default:
			pure = false
			continue
		}
		if k, isK := constInt(bo.Y); isK && isSubject(bo.X) {
			cons = append(cons, intCon{bo.Op, k, a.Pol, false})
		} else if k, isK := constInt(bo.X); isK && isSubject(bo.Y) {
			cons = append(cons, intCon{bo.Op, k, a.Pol, true})
		} else {
			pure = false
		}
	}
	return
}

func satisfies(cons []intCon, v int64) bool {
	for _, c := range cons {
		x, y := v, c.k
		if c.flip {
			x, y = c.k, v
		}
		r := false
		switch c.op {
		case token.EQL:
			r = x == y
		case token.NEQ:
			r = x != y
		case token.LSS:
			r = x < y
		case token.LEQ:
			r = x <= y
		case token.GTR:
			r = x > y
		case token.GEQ:
			r = x >= y
		}
		if r != c.pol {
			return false
		}
	}
	return true
}

// allCallersGuaranteeLen: every static call of fn in package exec passes for parameter p a value whose length
// is known to be at least n at the call.
func (w *World) allCallersGuaranteeLen(fn *ssa.Function, p *ssa.Parameter, n int64) bool {
	idx := -1
	for i, x := range fn.Params {
		if x == p {
			idx = i
		}
	}
	if idx < 0 {
		return false
	}
	calls := 0
	ok := true
	w.forAllFuncs("exec", func(g *ssa.Function) {
		allInstrs(g, func(in ssa.Instruction) {
			c, isCall := in.(*ssa.Call)
			if !isCall || staticCallee(c) != fn {
				return
			}
			calls++
			if !lenAtLeast(c.Block(), c.Call.Args[idx], n) {
				ok = false
			}
		})
	})
	return ok && calls > 0
}

func orElse(s, d string) string {
	if s == "" {
		return d
	}
	return s
}

func descendingCounter(v ssa.Value) bool {
	phi, ok := v.(*ssa.Phi)
	if !ok {
		return false
	}
	okStep := false
	for _, e := range phi.Edges {
		if bo, ok := e.(*ssa.BinOp); ok && bo.Op == token.SUB && bo.X == ssa.Value(phi) {
			if k, ok := constInt(bo.Y); ok && k == 1 {
				okStep = true
			}
		}
	}
	if !okStep {
		return false
	}
	// loop condition i >= 0 guards the body
	for _, r := range referrers(phi) {
		if bo, ok := r.(*ssa.BinOp); ok && bo.Op == token.GEQ && bo.X == ssa.Value(phi) {
			if k, ok := constInt(bo.Y); ok && k == 0 {
				return true
			}
		}
	}
	return false
}

func isLenOf(v, base ssa.Value) bool {
	c, ok := v.(*ssa.Call)
	if !ok {
		return false
	}
	b, ok := c.Call.Value.(*ssa.Builtin)
	return ok && b.Name() == "len" && (base == nil || c.Call.Args[0] == base)
}

func isLenMinusConst(idx, base ssa.Value) bool {
	bo, ok := idx.(*ssa.BinOp)
	if !ok || bo.Op != token.SUB {
		return false
	}
	_, isK := constInt(bo.Y)
	return isK && isLenOf(bo.X, base)
}

// nonEmptyGuard: the block is reached only when len(base) != 0 was established, or base was just appended to.
func nonEmptyGuard(b *ssa.BasicBlock, base ssa.Value) bool {
	for _, a := range guardAtoms(b) {
		bo, ok := a.V.(*ssa.BinOp)
		if !ok {
			continue
		}
		if k, isK := constInt(bo.Y); isK && isLenOf(bo.X, nil) {
			if (bo.Op == token.EQL && k == 0 && !a.Pol) || (bo.Op == token.GTR && k == 0 && a.Pol) || (bo.Op == token.NEQ && k == 0 && a.Pol) {
				return true
			}
		}
	}
	// base is (a phi of) append results: non-empty by construction
	seen := map[ssa.Value]bool{}
	var nonEmpty func(v ssa.Value) bool
	nonEmpty = func(v ssa.Value) bool {
		if seen[v] {
			return true
		}
		seen[v] = true
		switch x := v.(type) {
		case *ssa.Call:
			if bi, ok := x.Call.Value.(*ssa.Builtin); ok && bi.Name() == "append" {
				return true
			}
		case *ssa.Phi:
			for _, e := range x.Edges {
				if !nonEmpty(e) {
					return false
				}
			}
			return true
		}
		return false
	}
	return nonEmpty(base)
}

// sameObj: the same value, also when it is read twice from the same field of the same struct value or object (go/ssa
// does not share the two reads) and the function never stores into that field.
func sameObj(a, b ssa.Value) bool {
	a, b = stripConv(a), stripConv(b)
	if a == b {
		return true
	}
	fa, ok1 := a.(*ssa.Field)
	fb, ok2 := b.(*ssa.Field)
	if ok1 && ok2 {
		return fa.Field == fb.Field && sameObj(fa.X, fb.X)
	}
	la, ok1 := a.(*ssa.UnOp)
	lb, ok2 := b.(*ssa.UnOp)
	if ok1 && ok2 && la.Op == token.MUL && lb.Op == token.MUL {
		pa, ok1 := la.X.(*ssa.FieldAddr)
		pb, ok2 := lb.X.(*ssa.FieldAddr)
		if !ok1 || !ok2 || pa.Field != pb.Field || !(pa.X == pb.X || sameObj(pa.X, pb.X)) {
			return false
		}
		if la.Block() == lb.Block() {
			// both reads in one block: nothing in between may store into the field or be handed the object
			i, j := instrIndex(la), instrIndex(lb)
			if i > j {
				i, j = j, i
			}
			for _, in := range la.Block().Instrs[i:j] {
				switch x := in.(type) {
				case *ssa.Store:
					if f2, ok := x.Addr.(*ssa.FieldAddr); ok && f2.Field == pa.Field && types.Identical(f2.X.Type(), pa.X.Type()) {
						return false
					}
				case ssa.CallInstruction:
					for _, a := range x.Common().Args {
						if a == pa.X && !calleeLeavesField(x, pa, 0) {
							return false
						}
					}
				}
			}
			return true
		}
		written := false
		allInstrs(la.Parent(), func(in ssa.Instruction) {
			if st, ok := in.(*ssa.Store); ok {
				if f2, ok := st.Addr.(*ssa.FieldAddr); ok && f2.Field == pa.Field && types.Identical(f2.X.Type(), pa.X.Type()) {
					// a store that precedes both reads on every path (the initialisation) does not come between them
					if !(instrAfter(st, la) && instrAfter(st, lb)) {
						written = true
					}
				}
			}
		})
		return !written
	}
	return false
}

func sameVal(a, b ssa.Value) bool {
	if a == b {
		return true
	}
	ca, ok1 := a.(*ssa.Call)
	cb, ok2 := b.(*ssa.Call)
	if ok1 && ok2 && isLenOf(ca, nil) && isLenOf(cb, nil) && ca.Call.Args[0] == cb.Call.Args[0] {
		return true
	}
	return false
}

func lenGuarded(b *ssa.BasicBlock, idx, base ssa.Value) bool {
	// the length compared with must be the length of the indexed value itself (a bound taken from a different
	// value - the byte length of the string a rune slice was made from - proves nothing)
	sameBase := func(v ssa.Value) bool {
		c, ok := v.(*ssa.Call)
		if !ok || !isLenOf(c, nil) {
			return false
		}
		return stripConv(c.Call.Args[0]) == stripConv(base) || c.Call.Args[0] == base || sameObj(c.Call.Args[0], base)
	}
	for _, a := range guardAtoms(b) {
		bo, ok := a.V.(*ssa.BinOp)
		if !ok {
			continue
		}
		// idx <= len(x) suffices for a slice bound, idx < len(x) for an index; both forms with the same length
		if (sameVal(bo.X, idx) || bo.X == idx) && sameBase(bo.Y) && ((bo.Op == token.LSS && a.Pol) || (bo.Op == token.GEQ && !a.Pol)) {
			return true
		}
		if (sameVal(bo.Y, idx) || bo.Y == idx) && sameBase(bo.X) && ((bo.Op == token.GTR && a.Pol) || (bo.Op == token.LEQ && !a.Pol)) {
			return true
		}
	}
	return false
}

// sameInt: the same integer value (identical SSA value, or equal constants).
func sameInt(a, b ssa.Value) bool {
	if sameVal(a, b) {
		return true
	}
	ka, ok1 := constInt(a)
	kb, ok2 := constInt(b)
	return ok1 && ok2 && ka == kb
}

// ltLen: block b is reached only when v < len(base).
func ltLen(b *ssa.BasicBlock, v, base ssa.Value) bool {
	for _, a := range guardAtoms(b) {
		bo, ok := a.V.(*ssa.BinOp)
		if !ok {
			continue
		}
		if sameInt(bo.X, v) && isLenOfSame(bo.Y, base) && ((bo.Op == token.LSS && a.Pol) || (bo.Op == token.GEQ && !a.Pol)) {
			return true
		}
		if sameInt(bo.Y, v) && isLenOfSame(bo.X, base) && ((bo.Op == token.GTR && a.Pol) || (bo.Op == token.LEQ && !a.Pol)) {
			return true
		}
	}
	return false
}

func isLenOfSame(v, base ssa.Value) bool {
	c, ok := v.(*ssa.Call)
	if !ok || !isLenOf(c, nil) {
		return false
	}
	return stripConv(c.Call.Args[0]) == stripConv(base)
}

// leLen proves 0 <= v <= len(base) at block b by induction over the value:
//   - the constant 0;
//   - a phi all of whose incoming values are proven at the end of their predecessor;
//   - x + 1 where the block is reached only under x < len(base);
//   - x + g(base[x:]) where x is proven and g returns a value proven <= len of its parameter (a scan length).
func leLen(v, base ssa.Value, b *ssa.BasicBlock, inProgress map[ssa.Value]bool, depth int) bool {
	if depth > 12 {
		return false
	}
	v = stripConv(v)
	if k, ok := constInt(v); ok {
		return k == 0 || lenAtLeast(b, base, k)
	}
	// len(base) itself
	if c, ok := v.(*ssa.Call); ok && isLenOf(c, nil) && (stripConv(c.Call.Args[0]) == stripConv(base) || sameObj(c.Call.Args[0], base)) {
		return true
	}
	// g(base) where g returns at most the length of its argument (the length of a scanned prefix)
	if c, ok := v.(*ssa.Call); ok {
		if g := staticCallee(c); g != nil && inRepo(g) && len(g.Params) == 1 && len(c.Call.Args) == 1 && stripConv(c.Call.Args[0]) == stripConv(base) && returnsLeLenOfParam(g) {
			return true
		}
	}
	// len(a) <= len(base) when base was made with a length that is len(a) plus lengths / non-negative constants
	if c, ok := v.(*ssa.Call); ok && isLenOf(c, nil) {
		if mk, ok := stripConv(base).(*ssa.MakeSlice); ok {
			var terms []ssa.Value
			var flat func(x ssa.Value)
			flat = func(x ssa.Value) {
				if bo, ok := x.(*ssa.BinOp); ok && bo.Op == token.ADD {
					flat(bo.X)
					flat(bo.Y)
					return
				}
				terms = append(terms, x)
			}
			flat(mk.Len)
			has, nonneg := false, true
			for _, t := range terms {
				if tc, ok := t.(*ssa.Call); ok && isLenOf(tc, nil) {
					if sameVal(tc, c) {
						has = true
					}
					continue
				}
				if k, ok := constInt(t); ok && k >= 0 {
					continue
				}
				nonneg = false
			}
			if has && nonneg {
				return true
			}
		}
	}
	switch x := v.(type) {
	case *ssa.Phi:
		if inProgress[x] {
			return true // induction hypothesis
		}
		inProgress[x] = true
		defer delete(inProgress, x)
		for i, e := range x.Edges {
			if !leLen(e, base, x.Block().Preds[i], inProgress, depth+1) {
				return false
			}
		}
		return true
	case *ssa.BinOp:
		if x.Op != token.ADD {
			return false
		}
		for _, pair := range [][2]ssa.Value{{x.X, x.Y}, {x.Y, x.X}} {
			l, r := pair[0], pair[1]
			if k, ok := constInt(r); ok && k == 1 {
				// the guard may sit on the block of the addition or on the block under examination
				if ltLen(x.Block(), l, base) || ltLen(b, l, base) {
					return true
				}
			}
			if c, ok := stripConv(r).(*ssa.Call); ok {
				g := staticCallee(c)
				if g != nil && inRepo(g) && len(g.Params) == 1 && len(c.Call.Args) == 1 {
					if sl, ok := c.Call.Args[0].(*ssa.Slice); ok && stripConv(sl.X) == stripConv(base) && sl.High == nil && sl.Low != nil && sameInt(sl.Low, l) {
						if leLen(l, base, x.Block(), inProgress, depth+1) && returnsLeLenOfParam(g) {
							return true
						}
					}
				}
			}
		}
	}
	return false
}

// returnsLeLenOfParam: every value g returns is proven <= len(its only parameter).
func returnsLeLenOfParam(g *ssa.Function) bool {
	if g.Signature.Results().Len() != 1 || len(g.Blocks) == 0 {
		return false
	}
	ok, n := true, 0
	allInstrs(g, func(in ssa.Instruction) {
		ret, isRet := in.(*ssa.Return)
		if !isRet {
			return
		}
		n++
		if !leLen(ret.Results[0], g.Params[0], ret.Block(), map[ssa.Value]bool{}, 0) {
			ok = false
		}
	})
	return ok && n > 0
}

func isPosEqGuardedSlice(in ssa.Instruction, idx ssa.Value) bool {
	if _, ok := in.(*ssa.Slice); !ok {
		return false
	}
	return hasPosEqualityGuard(in.Block())
}

func isIndexCallResult(idx ssa.Value) bool {
	c, ok := idx.(*ssa.Call)
	if !ok || staticCallee(c) == nil {
		return false
	}
	n := funcFullName(staticCallee(c))
	return n == "strings.Index" || n == "strings.LastIndex"
}

func nonNegativeGuard(b *ssa.BasicBlock, v ssa.Value) bool {
	for _, a := range guardAtoms(b) {
		bo, ok := a.V.(*ssa.BinOp)
		if !ok || bo.X != v {
			continue
		}
		k, isK := constInt(bo.Y)
		if !isK {
			continue
		}
		if (bo.Op == token.LSS && k == 0 && !a.Pol) || (bo.Op == token.GEQ && k == 0 && a.Pol) || (bo.Op == token.EQL && k == -1 && !a.Pol) || (bo.Op == token.NEQ && k == -1 && a.Pol) {
			return true
		}
	}
	return false
}

func isPlusLen(idx ssa.Value) bool {
	bo, ok := idx.(*ssa.BinOp)
	if !ok || bo.Op != token.ADD {
		return false
	}
	return (isIndexCallResult(bo.X) && isLenOf(bo.Y, nil)) || (isIndexCallResult(bo.Y) && isLenOf(bo.X, nil)) ||
		func() bool { _, k := constInt(bo.Y); return k && ascendingCounterOrIdx(bo.X) }()
}

func ascendingCounterOrIdx(v ssa.Value) bool { return ascendingCounter(v) }

var reflectKindOfBasic = map[types.BasicKind]int64{
	types.Bool: 1, types.Int: 2, types.Int8: 3, types.Int16: 4, types.Int32: 5, types.Int64: 6,
	types.Uint: 7, types.Uint8: 8, types.Uint16: 9, types.Uint32: 10, types.Uint64: 11,
	types.Float32: 13, types.Float64: 14, types.String: 24,
}

var reflectKindNames = map[int64]string{1: "Bool", 2: "Int", 3: "Int8", 4: "Int16", 5: "Int32", 6: "Int64", 7: "Uint", 8: "Uint8", 9: "Uint16", 10: "Uint32", 11: "Uint64", 13: "Float32", 14: "Float64", 24: "String"}

func checkC19(w *World) {
	const P = "C19"
	r := w.Roles()
	docRule(P, "R19.1", "T", "kind-to-conversion agreement: in the scalar conversion of Unmarshal, the arm selected by reflect kind K returns a reflect.Value of the Go type whose kind is K, built from String() for strings, Bool() for booleans and Number() for the numeric kinds; the fourteen scalar kinds are all covered; every other kind reports 'unsupported'.")
	docRule(P, "R19.2", "D", "shape checks: struct targets require a NodeSet with exactly one node, slice targets a NodeSet; slice element kind Slice (multi-dimensional) and unsupported kinds return errors; reflect preconditions on the user's target: C15 R15.1.")
	docRule(P, "R19.3", "D", "untagged fields are untouched: every field assignment of the struct walk is control-dependent on the field's xsel tag being non-empty.")
	docRule(P, "R19.4", "F", "one element per node in result order: the slice is filled by Append inside an ascending loop over the node-set; pointer fields/elements are wrapped with freshly allocated pointers (reflect.New) once per declared pointer level.")

	um := w.member("exec", "Unmarshal")
	if um == nil {
		w.undecided(P, "R19.1", "exec.Unmarshal", 0, "not found")
		return
	}
	closure := staticReach(um, func(x *ssa.Function) bool { return fnPkgKey(x) == "exec" && x.Name() != "Exec" })
	// R19.1: the function with a reflect.Kind parameter
	var conv *ssa.Function
	for g := range closure {
		for _, p := range g.Params {
			if n, ok := p.Type().(*types.Named); ok && n.Obj().Name() == "Kind" && n.Obj().Pkg().Path() == "reflect" {
				conv = g
			}
		}
	}
	var typParam ssa.Value
	if conv == nil {
		// ... or a reflect.Type parameter whose Kind() selects among the scalar kinds
		best := 0
		for g := range closure {
			for _, p := range g.Params {
				n, ok := p.Type().(*types.Named)
				if !ok || n.Obj().Name() != "Type" || n.Obj().Pkg() == nil || n.Obj().Pkg().Path() != "reflect" {
					continue
				}
				arms := map[int64]bool{}
				allInstrs(g, func(in ssa.Instruction) {
					bo, ok := in.(*ssa.BinOp)
					if !ok || bo.Op != token.EQL {
						return
					}
					k, isK := constInt(bo.Y)
					if !isK || reflectKindNames[k] == "" {
						return
					}
					if recv, isKind := isMethodCall(bo.X, "Kind"); isKind && recv == ssa.Value(p) {
						arms[k] = true
					}
				})
				if len(arms) > best && len(arms) >= 8 {
					best, conv, typParam = len(arms), g, p
				}
			}
		}
	}
	if conv == nil {
		w.undecided(P, "R19.1", "scalar conversion", um.Pos(), "no function with a reflect.Kind parameter reachable from Unmarshal")
	} else {
		covered := map[int64]bool{}
		tableSrc := ""
		checkRet := func(k int64, ret *ssa.Return) {
			if len(ret.Results) < 1 {
				return
			}
			c, ok := ret.Results[0].(*ssa.Call)
			// reflect.ValueOf(x).Convert(typ) with typ the type whose kind selected the arm: the result has kind K
			// by construction; what matters is that x did not pass through a Go type of another kind on the way
			viaConvert := false
			if ok && staticCallee(c) != nil && funcFullName(staticCallee(c)) == "(reflect.Value).Convert" && typParam != nil && len(c.Call.Args) == 2 && c.Call.Args[1] == typParam {
				if inner, isCall := c.Call.Args[0].(*ssa.Call); isCall {
					c, viaConvert = inner, true
				}
			}
			if !ok || staticCallee(c) == nil || funcFullName(staticCallee(c)) != "reflect.ValueOf" {
				w.check(P, "R19.1", "conversion for kind "+reflectKindNames[k], ret.Pos(), false, "arm does not return reflect.ValueOf(...)")
				return
			}
			mi, ok := c.Call.Args[0].(*ssa.MakeInterface)
			if !ok {
				return
			}
			bt, ok := mi.X.Type().Underlying().(*types.Basic)
			got := int64(-1)
			if ok {
				got = reflectKindOfBasic[bt.Kind()]
			}
			// source method
			src := ""
			backSlice(mi.X, func(v ssa.Value) bool {
				if cc, ok := v.(*ssa.Call); ok && cc.Call.IsInvoke() {
					src = cc.Call.Method.Name()
					return false
				}
				return true
			})
			if src == "" && tableSrc != "" {
				src = tableSrc
			}
			wantSrc := "Number"
			if k == 24 {
				wantSrc = "String"
			} else if k == 1 {
				wantSrc = "Bool"
			}
			covered[k] = true
			// exactly one conversion from the source value (no intermediate narrower type)
			nConv := 0
			var via []string
			cur := mi.X
			for {
				cv, isCv := cur.(*ssa.Convert)
				if !isCv {
					break
				}
				nConv++
				via = append(via, cv.Type().String())
				cur = cv.X
			}
			if nConv > 1 {
				// an intermediate type narrower than the final one truncates
				narrow := false
				sizes := types.SizesFor("gc", "amd64")
				final := sizes.Sizeof(mi.X.Type())
				cur2 := mi.X.(*ssa.Convert).X
				for {
					cv, isCv := cur2.(*ssa.Convert)
					if !isCv {
						break
					}
					if sizes.Sizeof(cv.Type()) < final {
						narrow = true
					}
					cur2 = cv.X
				}
				w.check(P, "R19.1", "conversion chain for kind "+reflectKindNames[k], ret.Pos(), !narrow, fmt.Sprintf("the number passes through %v; an intermediate type narrower than the field type (truncates values the field could hold): %v", via, narrow))
			}
			if viaConvert {
				direct := nConv == 0
				w.check(P, "R19.1", "conversion for kind "+reflectKindNames[k], ret.Pos(), src == wantSrc && (direct || got == k), fmt.Sprintf("case reflect.%s converts a %s built from %s() to the target type; required: %s() itself, or already of kind %s (an intermediate Go type of another kind loses the values it cannot hold, e.g. int64 for an unsigned field)", reflectKindNames[k], mi.X.Type().String(), src, wantSrc, reflectKindNames[k]))
				return
			}
			w.check(P, "R19.1", "conversion for kind "+reflectKindNames[k], ret.Pos(), got == k && src == wantSrc, fmt.Sprintf("case reflect.%s returns a %s built from %s(); required kind %s from %s()", reflectKindNames[k], mi.X.Type().String(), src, reflectKindNames[k], wantSrc))
		}
		// switch form: one arm per kind
		allInstrs(conv, func(in ssa.Instruction) {
			ifi, ok := in.(*ssa.If)
			if !ok {
				return
			}
			bo, ok := ifi.Cond.(*ssa.BinOp)
			if !ok || bo.Op != token.EQL {
				return
			}
			k, ok := constInt(bo.Y)
			if !ok {
				return
			}
			body := ifi.Block().Succs[0]
			for _, in2 := range body.Instrs {
				if ret, ok := in2.(*ssa.Return); ok {
					checkRet(k, ret)
				}
			}
		})
		// table form: a package-level map from reflect.Kind to conversion functions, looked up with the kind
		allInstrs(conv, func(in ssa.Instruction) {
			lk, ok := in.(*ssa.Lookup)
			if !ok {
				return
			}
			ld, ok := lk.X.(*ssa.UnOp)
			if !ok {
				return
			}
			g, ok := ld.X.(*ssa.Global)
			if !ok {
				return
			}
			entries, ok := w.globalMapLiteral(g)
			if !ok {
				w.undecided(P, "R19.1", "conversion table "+g.Name(), lk.Pos(), "the table is not a map literal that is never updated")
				return
			}
			for _, e := range entries {
				k, ok := constInt(e.Key)
				if !ok {
					continue
				}
				var fn *ssa.Function
				switch v := stripConv(e.Val).(type) {
				case *ssa.Function:
					fn = v
				case *ssa.MakeClosure:
					fn, _ = v.Fn.(*ssa.Function)
				}
				if fn == nil {
					continue
				}
				// an entry that receives the already converted number: the conversion method is the one applied to the
				// argument where the looked-up function is called
				tableSrc = ""
				if len(fn.Params) == 1 {
					if b, ok := fn.Params[0].Type().Underlying().(*types.Basic); ok && b.Kind() == types.Float64 {
						for _, rr := range referrers(lk) {
							fv := ssa.Value(nil)
							if ex, ok := rr.(*ssa.Extract); ok && ex.Index == 0 {
								fv = ex
							}
							if fv == nil {
								continue
							}
							for _, r2 := range referrers(fv) {
								if c, ok := r2.(*ssa.Call); ok && c.Call.Value == fv && len(c.Call.Args) == 1 {
									if _, isNum := isMethodCall(stripConvAll(c.Call.Args[0]), "Number"); isNum {
										tableSrc = "Number"
									}
								}
							}
						}
						if !lk.CommaOk {
							for _, r2 := range referrers(lk) {
								if c, ok := r2.(*ssa.Call); ok && c.Call.Value == ssa.Value(lk) && len(c.Call.Args) == 1 {
									if _, isNum := isMethodCall(stripConvAll(c.Call.Args[0]), "Number"); isNum {
										tableSrc = "Number"
									}
								}
							}
						}
					}
				}
				allInstrs(fn, func(in2 ssa.Instruction) {
					if ret, ok := in2.(*ssa.Return); ok {
						checkRet(k, ret)
					}
				})
				tableSrc = ""
			}
		})
		for k, name := range reflectKindNames {
			if !covered[k] {
				w.check(P, "R19.1", "conversion for kind "+name, conv.Pos(), false, "no arm for reflect."+name+": fields of that type report 'unsupported'")
			}
		}
	}
	w.floorSites(P, "R19.1", 14)

	// R19.2 shape checks
	for g := range closure {
		allInstrs(g, func(in ssa.Instruction) {
			ta, ok := in.(*ssa.TypeAssert)
			if !ok || !ta.CommaOk || !types.Identical(ta.AssertedType, r.NodeSet) {
				return
			}
			if _, isParam := ta.X.(*ssa.Parameter); !isParam {
				return
			}
			// failing branch returns an error
			var okV ssa.Value
			for _, rr := range referrers(ta) {
				if ex, ok := rr.(*ssa.Extract); ok && ex.Index == 1 {
					okV = ex
				}
			}
			errOnFail := false
			allInstrs(g, func(in2 ssa.Instruction) {
				ret, ok := in2.(*ssa.Return)
				if !ok || len(ret.Results) != 1 || isNilConst(ret.Results[0]) {
					return
				}
				for _, a := range guardAtoms(ret.Block()) {
					if a.V == okV && !a.Pol {
						errOnFail = true
					}
				}
				// `!ok || len != 1` is a phi-free disjunction: the return block is the join; accept a return whose block is a successor of the ok test's false edge
				for _, p := range ret.Block().Preds {
					if len(p.Instrs) > 0 {
						if ifi, ok := p.Instrs[len(p.Instrs)-1].(*ssa.If); ok && ifi.Cond == okV && p.Succs[1] == ret.Block() {
							errOnFail = true
						}
					}
				}
			})
			w.check(P, "R19.2", "result shape test in "+g.Name(), ta.Pos(), errOnFail, fmt.Sprintf("a non-NodeSet result makes %s return an error: %v", g.Name(), errOnFail))
			// struct walk: len == 1
			usesNumField := false
			allInstrs(g, func(in2 ssa.Instruction) {
				if c, ok := in2.(*ssa.Call); ok && reflectMethod(c) == "NumField" {
					usesNumField = true
				}
			})
			if usesNumField {
				oneNode := false
				allInstrs(g, func(in2 ssa.Instruction) {
					if bo, ok := in2.(*ssa.BinOp); ok && (bo.Op == token.NEQ || bo.Op == token.EQL) {
						if k, isK := constInt(bo.Y); isK && k == 1 && isLenOf(bo.X, nil) {
							oneNode = true
						}
					}
				})
				w.check(P, "R19.2", "struct target requires exactly one node in "+g.Name(), ta.Pos(), oneNode, fmt.Sprintf("len(node-set) compared with 1: %v", oneNode))
			}
		})
	}
	// multi-dimensional slices: an error return under `kind == reflect.Slice`, where the kind is that of the element type
	// with every pointer level removed (`[]*[]string` is two-dimensional as well)
	{
		const kindPointer, kindSlice = 22, 23
		typeOfKind := func(v ssa.Value) ssa.Value {
			if c, ok := stripConv(v).(*ssa.Call); ok {
				if c.Call.IsInvoke() && c.Call.Method.Name() == "Kind" {
					return c.Call.Value
				}
				if reflectMethod(c) == "Kind" && len(c.Call.Args) > 0 {
					return c.Call.Args[0]
				}
			}
			return nil
		}
		kindTest := func(a atom, k int64) (ssa.Value, bool) {
			bo, ok := a.V.(*ssa.BinOp)
			if !ok || (bo.Op != token.EQL && bo.Op != token.NEQ) {
				return nil, false
			}
			x, y := bo.X, bo.Y
			if c, isK := constInt(x); isK && c == k {
				x, y = y, x
			}
			if c, isK := constInt(y); !isK || c != k {
				return nil, false
			}
			return x, (bo.Op == token.EQL) == a.Pol
		}
		sameKind := func(a, b ssa.Value) bool {
			if a == b {
				return true
			}
			ta, tb := typeOfKind(a), typeOfKind(b)
			return ta != nil && ta == tb
		}
		// typeStripped: at block blk the reflect.Type T is known to have no pointer level left: a `T.Kind() == Pointer`
		// test failed on the way; T was handed back by a helper of the package all of whose returns are stripped; or T
		// is a parameter and every caller passes a stripped type
		var typeStripped func(T ssa.Value, blk *ssa.BasicBlock, depth int) bool
		typeStripped = func(T ssa.Value, blk *ssa.BasicBlock, depth int) bool {
			if T == nil || depth > 3 {
				return false
			}
			// kindOfT: the kind value x is the kind of T - T.Kind(), or a loop variable kept in step with the loop
			// variable T (`for kind == Pointer { T = T.Elem(); kind = T.Kind() }`)
			kindOfT := func(x ssa.Value) bool {
				if typeOfKind(x) == T {
					return true
				}
				kp, ok1 := x.(*ssa.Phi)
				tp, ok2 := T.(*ssa.Phi)
				if !ok1 || !ok2 || kp.Block() != tp.Block() || len(kp.Edges) != len(tp.Edges) {
					return false
				}
				for i := range kp.Edges {
					if typeOfKind(kp.Edges[i]) != tp.Edges[i] {
						return false
					}
				}
				return true
			}
			for _, a := range guardAtoms(blk) {
				if x, isEq := kindTest(a, kindPointer); x != nil && !isEq && kindOfT(x) {
					return true
				}
			}
			switch x := stripConv(T).(type) {
			case *ssa.Parameter:
				g := x.Parent()
				pi := -1
				for i, p := range g.Params {
					if p == x {
						pi = i
					}
				}
				sites := w.callersOf(g)
				all := pi >= 0 && len(sites) > 0
				for _, site := range sites {
					if pi < 0 || pi >= len(site.Call.Args) || !typeStripped(site.Call.Args[pi], site.Block(), depth+1) {
						all = false
					}
				}
				return all
			case *ssa.Call, *ssa.Extract:
				idx := 0
				var call *ssa.Call
				if c, ok := x.(*ssa.Call); ok {
					call = c
				} else if ex, ok := x.(*ssa.Extract); ok {
					call, _ = ex.Tuple.(*ssa.Call)
					idx = ex.Index
				}
				if call == nil {
					return false
				}
				h := staticCallee(call)
				if h == nil || fnPkgKey(h) != "exec" || len(h.Blocks) == 0 {
					return false
				}
				all, n := true, 0
				allInstrs(h, func(in ssa.Instruction) {
					ret, ok := in.(*ssa.Return)
					if !ok || idx >= len(ret.Results) {
						return
					}
					n++
					if !typeStripped(ret.Results[idx], ret.Block(), depth+1) {
						all = false
					}
				})
				return all && n > 0
			}
			return false
		}
		// notPointer: at block blk the kind value K is known not to be Pointer
		notPointer := func(K ssa.Value, blk *ssa.BasicBlock, depth int) bool {
			for _, a := range guardAtoms(blk) {
				if x, isEq := kindTest(a, kindPointer); x != nil && !isEq && sameKind(x, K) {
					return true
				}
			}
			return typeStripped(typeOfKind(K), blk, 0)
		}
		found, stripped := false, true
		var where token.Pos
		for g := range closure {
			allInstrs(g, func(in ssa.Instruction) {
				ret, ok := in.(*ssa.Return)
				if !ok || len(ret.Results) == 0 || isNilConst(ret.Results[len(ret.Results)-1]) {
					return
				}
				// an error made here, not one handed up from the slice walk
				if ec, isCall := stripConvAll(ret.Results[len(ret.Results)-1]).(*ssa.Call); !isCall || staticCallee(ec) == nil || inRepo(staticCallee(ec)) {
					return
				}
				for _, a := range guardAtoms(ret.Block()) {
					K, isEq := kindTest(a, kindSlice)
					if K == nil || !isEq {
						continue
					}
					if _, isKind := K.Type().(*types.Named); !isKind || K.Type().String() != "reflect.Kind" {
						continue
					}
					found = true
					where = ret.Pos()
					// the test's own block is where the kind must be known to be pointer-free
					tb := ret.Block()
					if bo, isBo := a.V.(*ssa.BinOp); isBo && bo.Block() != nil {
						tb = bo.Block()
					}
					if !notPointer(K, tb, 0) && !notPointer(K, ret.Block(), 0) {
						stripped = false
					}
				}
			})
		}
		w.check(P, "R19.2", "multi-dimensional slice targets are rejected", where, found && stripped, fmt.Sprintf("an error is returned under kind == reflect.Slice: %v; the kind tested is that of the element type with every pointer level removed: %v (otherwise `[]*[]T` is filled instead of rejected)", found, found && stripped))
	}
	w.floor(P, "R19.2", 4)

	// reflect preconditions on the user's target, shared with C15
	before := len(w.Obs)
	w.reflectGuards(P)
	for _, o := range w.Obs[before:] {
		o.Rule = "R19.5"
	}
	delete(w.floors, P+"|R15.1")
	w.floorSites(P, "R19.5", 5)
	docRule(P, "R19.5", "D reflect guards", "targets that cannot be filled produce an error, never a panic: the reflect.Value of the user's target is asked for its Type only under IsValid, dereferenced only under !IsNil, addressed only under CanAddr, and set only under CanSet and an assignability test (same obligations as C15 R15.1).")

	// R19.3 tag guard
	n3 := 0
	for g := range closure {
		var tag ssa.Value
		allInstrs(g, func(in ssa.Instruction) {
			if c, ok := in.(*ssa.Call); ok && staticCallee(c) != nil && funcFullName(staticCallee(c)) == "(reflect.StructTag).Get" {
				if s, ok := constString(c.Call.Args[1]); ok && s == "xsel" {
					tag = c
				}
			}
		})
		if tag == nil {
			continue
		}
		allInstrs(g, func(in ssa.Instruction) {
			c, ok := in.(*ssa.Call)
			if !ok {
				return
			}
			sc := staticCallee(c)
			if sc == nil {
				return
			}
			isSetter := reflectMethod(c) == "Set"
			if !isSetter && fnPkgKey(sc) == "exec" {
				for h := range staticReach(sc, func(x *ssa.Function) bool { return fnPkgKey(x) == "exec" && x != g }) {
					allInstrs(h, func(in2 ssa.Instruction) {
						if c2, ok := in2.(*ssa.Call); ok && reflectMethod(c2) == "Set" {
							// only setters that act on the field value passed in
							isSetter = true
						}
					})
				}
				// must receive a value derived from val.Field(i)
				fromField := false
				for _, a := range c.Call.Args {
					if sliceContains(a, func(v ssa.Value) bool { cc, ok := v.(*ssa.Call); return ok && reflectMethod(cc) == "Field" }) {
						fromField = true
					}
				}
				isSetter = isSetter && fromField
			}
			if !isSetter {
				return
			}
			n3++
			// guarded here, or at every call of this function (the per-field work may live in a helper that the
			// loop calls only for tagged fields)
			var tagGuarded func(b *ssa.BasicBlock, depth int) bool
			tagGuarded = func(b *ssa.BasicBlock, depth int) bool {
				for _, a := range guardAtoms(b) {
					if bo, ok := a.V.(*ssa.BinOp); ok {
						if tc, isCall := bo.X.(*ssa.Call); isCall && staticCallee(tc) != nil && funcFullName(staticCallee(tc)) == "(reflect.StructTag).Get" {
							if k, isK := constString(tc.Call.Args[1]); !isK || k != "xsel" {
								continue
							}
							if s, isS := constString(bo.Y); isS && s == "" && ((bo.Op == token.EQL && !a.Pol) || (bo.Op == token.NEQ && a.Pol)) {
								return true
							}
						}
					}
				}
				if depth >= 3 {
					return false
				}
				fn := b.Parent()
				sites, ok := 0, true
				for g2 := range closure {
					allInstrs(g2, func(in2 ssa.Instruction) {
						if c2, isCall := in2.(*ssa.Call); isCall && staticCallee(c2) == fn {
							sites++
							if !tagGuarded(c2.Block(), depth+1) {
								ok = false
							}
						}
					})
				}
				return sites > 0 && ok
			}
			guarded := tagGuarded(c.Block(), 0)
			w.check(P, "R19.3", "field assignment in "+g.Name()+" via "+sc.Name(), c.Pos(), guarded, fmt.Sprintf("reached only when the field's xsel tag is non-empty: %v", guarded))
		})
	}
	if n3 == 0 {
		w.undecided(P, "R19.3", "field assignments", um.Pos(), "no field assignment found in the struct walk")
	}
	w.floorSites(P, "R19.3", 2)

	// R19.4 slice fill order and pointer wrapping
	for g := range closure {
		loops := loopBlocks(g)
		allInstrs(g, func(in ssa.Instruction) {
			c, ok := in.(*ssa.Call)
			if !ok || staticCallee(c) == nil {
				return
			}
			if funcFullName(staticCallee(c)) == "reflect.Append" {
				// reached from an ascending loop over the node-set in the caller
				asc := false
				// the function that appends, or a caller of it (the append may sit one or two helpers below the loop)
				chain := map[*ssa.Function]bool{g: true}
				for round := 0; round < 2; round++ {
					for h := range closure {
						allInstrs(h, func(in2 ssa.Instruction) {
							if c2, ok := in2.(*ssa.Call); ok && chain[staticCallee(c2)] && !loopBlocks(h)[c2.Block()] {
								chain[h] = true
							}
						})
					}
				}
				for h := range closure {
					hl := loopBlocks(h)
					allInstrs(h, func(in2 ssa.Instruction) {
						c2, ok := in2.(*ssa.Call)
						if !ok || !chain[staticCallee(c2)] || !hl[c2.Block()] {
							return
						}
						// the loop ranges over a NodeSet with an ascending counter
						allInstrs(h, func(in3 ssa.Instruction) {
							if ia, ok := in3.(*ssa.IndexAddr); ok && types.Identical(ia.X.Type(), r.NodeSet) && ascendingCounter(ia.Index) && hl[ia.Block()] {
								asc = true
							}
						})
					})
				}
				w.check(P, "R19.4", "slice elements appended in result order", c.Pos(), asc, fmt.Sprintf("reflect.Append is reached once per node from an ascending loop over the node-set: %v", asc))
			}
			if funcFullName(staticCallee(c)) == "reflect.New" && loops[c.Block()] {
				// pointer wrapping loop: counter decremented to zero, counter incremented once per pointer level
				w.check(P, "R19.4", "pointer wrapping allocates fresh pointers in "+g.Name(), c.Pos(), true, "reflect.New inside the per-level wrapping loop")
			}
		})
	}
	// nested struct and slice targets are freshly allocated: every call by which the walk re-enters the conversion hands
	// it reflect.New(T).Interface(), never a pointer found in the user's target (filling what an existing pointer
	// points to accumulates into a reused slice and writes through pointers the caller shares with other values)
	{
		var entry *ssa.Function
		allInstrs(um, func(in ssa.Instruction) {
			if c, ok := in.(*ssa.Call); ok {
				if g := staticCallee(c); g != nil && fnPkgKey(g) == "exec" && closure[g] && g != um && len(g.Params) >= 2 {
					if _, isIface := g.Params[1].Type().Underlying().(*types.Interface); isIface && entry == nil {
						entry = g
					}
				}
			}
		})
		if entry != nil {
			nRe := 0
			for g := range closure {
				if g == um {
					continue
				}
				allInstrs(g, func(in ssa.Instruction) {
					c, ok := in.(*ssa.Call)
					if !ok || staticCallee(c) != entry || len(c.Call.Args) < 2 {
						return
					}
					nRe++
					fresh := false
					seeded := ""
					var isFreshNew func(v ssa.Value, d int) bool
					isFreshNew = func(v ssa.Value, d int) bool {
						nc, isCall := v.(*ssa.Call)
						if !isCall || staticCallee(nc) == nil || d > 2 {
							return false
						}
						h := staticCallee(nc)
						if funcFullName(h) == "reflect.New" {
							return true
						}
						// a helper of the package every return of which is a pointer it has just allocated
						if fnPkgKey(h) != "exec" || len(h.Blocks) == 0 || h.Signature.Results().Len() != 1 {
							return false
						}
						all, n := true, 0
						allInstrs(h, func(in2 ssa.Instruction) {
							if ret, isRet := in2.(*ssa.Return); isRet {
								n++
								if !isFreshNew(ret.Results[0], d+1) {
									all = false
								}
							}
						})
						return all && n > 0
					}
					if ic, isCall := stripConvAll(c.Call.Args[1]).(*ssa.Call); isCall && reflectMethod(ic) == "Interface" && len(ic.Call.Args) > 0 {
						fresh = isFreshNew(ic.Call.Args[0], 0)
						// ... and still empty: nothing but reflect.Zero is stored through the new pointer before the
						// conversion fills it (seeding it with the field's current value accumulates into a reused slice)
						if nc, isNew := ic.Call.Args[0].(*ssa.Call); isNew && fresh && nc.Referrers() != nil {
							for _, r1 := range *nc.Referrers() {
								ec, isE := r1.(*ssa.Call)
								if !isE || reflectMethod(ec) != "Elem" || ec.Referrers() == nil {
									continue
								}
								for _, r2 := range *ec.Referrers() {
									sc, isS := r2.(*ssa.Call)
									if !isS || !strings.HasPrefix(reflectMethod(sc), "Set") || len(sc.Call.Args) < 2 || sc.Call.Args[0] != ssa.Value(ec) {
										continue
									}
									zc, isZ := sc.Call.Args[1].(*ssa.Call)
									if reflectMethod(sc) != "Set" || !isZ || staticCallee(zc) == nil || funcFullName(staticCallee(zc)) != "reflect.Zero" {
										fresh = false
										seeded = " (a value other than reflect.Zero is stored through the new pointer at " + w.pos(sc.Pos()) + " before the conversion fills it)"
									}
								}
							}
						}
					}
					w.check(P, "R19.4", "nested target handed to "+entry.Name()+" in "+g.Name(), c.Pos(), fresh, fmt.Sprintf("the target of the nested conversion is an empty reflect.New(T).Interface(): %v%s", fresh, seeded))
				})
			}
			_ = nRe
		}
	}
	w.floor(P, "R19.4", 2)
	// R19.6 what Set writes into
	docRule(P, "R19.6", "F", "Unmarshal writes a field or slice exactly where the caller's value holds it: the receiver of every reflect.Value.Set reached from Unmarshal is a value the function was given (a parameter, a Field(i)/Index(i) of one) or the Elem() of a pointer allocated with reflect.New on that path; it is never the Elem()/Indirect of a pointer found in the target (following an existing pointer overwrites memory that other targets or earlier results still share, and the field is then not freshly allocated).")
	nSet := 0
	for g := range closure {
		allInstrs(g, func(in ssa.Instruction) {
			c, ok := in.(*ssa.Call)
			if !ok || staticCallee(c) == nil || funcFullName(staticCallee(c)) != "(reflect.Value).Set" || len(c.Call.Args) < 1 {
				return
			}
			nSet++
			ok2, why := freshOrGivenValue(c.Call.Args[0], map[ssa.Value]bool{}, 0)
			w.check(P, "R19.6", "reflect.Value.Set receiver in "+g.Name(), c.Pos(), ok2, why)
		})
	}
	if nSet == 0 {
		w.undecided(P, "R19.6", "reflect.Value.Set", um.Pos(), "no Set call reached from Unmarshal")
	}
	w.floorSites(P, "R19.6", 2)
	// each field is filled from its own tag: nothing is remembered between calls (a cache of compiled tags keyed by
	// anything coarser than the type identity hands one type the queries of another)
	w.include(P, "C13", "R13.1", "R13.2")
}

// freshOrGivenValue: v (a reflect.Value) is a parameter, a Field/Index of such a value, the Elem() of a reflect.New
// result, or a merge of those.
func freshOrGivenValue(v ssa.Value, seen map[ssa.Value]bool, depth int) (bool, string) {
	if seen[v] {
		return true, ""
	}
	seen[v] = true
	if depth > 10 {
		return false, "receiver too deep to trace"
	}
	v = throughCells(v)
	switch x := v.(type) {
	case *ssa.Parameter:
		return true, "the receiver is the value the function was given"
	case *ssa.Phi:
		for _, e := range x.Edges {
			if ok, why := freshOrGivenValue(e, seen, depth+1); !ok {
				return false, why
			}
		}
		return true, "the receiver is a value the function was given or the contents of a pointer it allocated"
	case *ssa.UnOp:
		if x.Op == token.MUL {
			if al, ok := x.X.(*ssa.Alloc); ok {
				// spilled value receiver: follow the stores
				all := true
				why := ""
				n := 0
				for _, st := range storesInto(al) {
					if st.Addr == ssa.Value(al) {
						n++
						if ok, w2 := freshOrGivenValue(st.Val, seen, depth+1); !ok {
							all, why = false, w2
						}
					}
				}
				if n > 0 && all {
					return true, "the receiver is a value the function was given or the contents of a pointer it allocated"
				}
				if why != "" {
					return false, why
				}
			}
		}
	case *ssa.Call:
		sc := staticCallee(x)
		if sc == nil {
			return false, "receiver comes from a dynamic call"
		}
		switch funcFullName(sc) {
		case "(reflect.Value).Field", "(reflect.Value).Index", "(reflect.Value).FieldByIndex":
			return freshOrGivenValue(x.Call.Args[0], seen, depth+1)
		case "(reflect.Value).Elem", "reflect.Indirect":
			base := throughCells(x.Call.Args[0])
			if bc, ok := base.(*ssa.Call); ok && staticCallee(bc) != nil && funcFullName(staticCallee(bc)) == "reflect.New" {
				return true, "the receiver is the contents of a pointer allocated with reflect.New"
			}
			if ph, ok := base.(*ssa.Phi); ok {
				allNew := len(ph.Edges) > 0
				for _, e := range ph.Edges {
					if bc, ok := throughCells(e).(*ssa.Call); !ok || staticCallee(bc) == nil || funcFullName(staticCallee(bc)) != "reflect.New" {
						allNew = false
					}
				}
				if allNew {
					return true, "the receiver is the contents of a pointer allocated with reflect.New"
				}
			}
			return false, "the receiver is the Elem()/Indirect of a pointer that was not allocated here: Set writes through a pointer found in the target"
		}
		return false, "receiver is the result of " + funcFullName(sc)
	}
	return false, fmt.Sprintf("receiver of kind %T not recognised", v)
}

// paramIndexSafeAtCallers: base[idx] where both are parameters of fn: safe when every static call of fn in package exec
// passes, as the index, the counter of an ascending loop whose bound is the length of the very value passed as the
// slice (`for i := range s { f(..., s, i) }`), or an index guarded by a comparison with that length.
func (w *World) paramIndexSafeAtCallers(fn *ssa.Function, idx, base ssa.Value) bool {
	pi, ok1 := idx.(*ssa.Parameter)
	pb, ok2 := base.(*ssa.Parameter)
	if !ok1 || !ok2 {
		return false
	}
	ii, bi := -1, -1
	for k, p := range fn.Params {
		if p == pi {
			ii = k
		}
		if p == pb {
			bi = k
		}
	}
	if ii < 0 || bi < 0 {
		return false
	}
	n, all := 0, true
	w.forAllFuncs("exec", func(g *ssa.Function) {
		allInstrs(g, func(in ssa.Instruction) {
			c, ok := in.(ssa.CallInstruction)
			if !ok || c.Common().StaticCallee() != fn {
				return
			}
			n++
			args := c.Common().Args
			if ii >= len(args) || bi >= len(args) {
				all = false
				return
			}
			ai, ab := args[ii], args[bi]
			if lenGuarded(in.Block(), ai, ab) {
				return
			}
			// counter of a loop bounded by len(ab): the block is guarded by ai < len(ab)
			okLoop := false
			if ascendingCounter(ai) {
				for _, a := range guardAtoms(in.Block()) {
					bo, ok := a.V.(*ssa.BinOp)
					if !ok || !a.Pol || bo.Op != token.LSS {
						continue
					}
					if isLenOfSame(bo.Y, ab) {
						okLoop = true
					}
				}
			}
			if !okLoop {
				all = false
			}
		})
		// a function value use of fn (handed to someone else) defeats the argument
		allInstrs(g, func(in ssa.Instruction) {
			for _, op := range in.Operands(nil) {
				if f2, ok := (*op).(*ssa.Function); ok && f2 == fn {
					if c, isCall := in.(ssa.CallInstruction); !isCall || c.Common().StaticCallee() != fn {
						all = false
					}
				}
			}
		})
	})
	return n > 0 && all
}

// literalBoundSafe: base[idx] / base[:idx] inside a function literal whose parameters they are: safe when at every call
// of the literal (the helper it is handed to calls its function parameter) the bound passed is safe for the string
// passed: strings.Index of that very string tested non-negative, that plus a length of the match, or length-guarded.
func literalBoundSafe(lit *ssa.Function, idx, base ssa.Value) bool {
	pi, ok1 := idx.(*ssa.Parameter)
	pb, ok2 := base.(*ssa.Parameter)
	if !ok1 || !ok2 {
		return false
	}
	ii, bi := -1, -1
	for k, p := range lit.Params {
		if p == pi {
			ii = k
		}
		if p == pb {
			bi = k
		}
	}
	if ii < 0 || bi < 0 {
		return false
	}
	sites := literalCallSites(lit)
	if len(sites) == 0 {
		return false
	}
	indexOf := func(v, s ssa.Value) bool {
		c, ok := v.(*ssa.Call)
		return ok && isIndexCallResult(c) && len(c.Call.Args) == 2 && c.Call.Args[0] == s
	}
	for _, c := range sites {
		if ii >= len(c.Call.Args) || bi >= len(c.Call.Args) {
			return false
		}
		ai, ab := c.Call.Args[ii], c.Call.Args[bi]
		switch {
		case indexOf(ai, ab) && nonNegativeGuard(c.Block(), ai):
		case lenGuarded(c.Block(), ai, ab):
		default:
			// position of the match plus the length of what was searched for
			bo, ok := ai.(*ssa.BinOp)
			if !ok || bo.Op != token.ADD {
				return false
			}
			pos, ln := bo.X, bo.Y
			if !indexOf(pos, ab) {
				pos, ln = bo.Y, bo.X
			}
			lc, isLen := ln.(*ssa.Call)
			if !indexOf(pos, ab) || !isLen || !isLenOf(lc, nil) || !nonNegativeGuard(c.Block(), pos) {
				return false
			}
			if lc.Call.Args[0] != pos.(*ssa.Call).Call.Args[1] {
				return false
			}
		}
	}
	return true
}

// calleeLeavesField: the call's static callee is a function of the repository that (with what it calls in the
// repository, two levels deep) contains no store into the field fa addresses, for any object of that type.
func calleeLeavesField(c ssa.CallInstruction, fa *ssa.FieldAddr, depth int) bool {
	g := c.Common().StaticCallee()
	if g == nil || !inRepo(g) || len(g.Blocks) == 0 {
		return false
	}
	var leaves func(g *ssa.Function, d int) bool
	seen := map[*ssa.Function]bool{}
	leaves = func(g *ssa.Function, d int) bool {
		if seen[g] {
			return true
		}
		seen[g] = true
		if d > 2 {
			return false
		}
		ok := true
		allInstrs(g, func(in ssa.Instruction) {
			switch x := in.(type) {
			case *ssa.Store:
				if f2, isF := x.Addr.(*ssa.FieldAddr); isF && f2.Field == fa.Field && types.Identical(f2.X.Type(), fa.X.Type()) {
					ok = false
				}
			case ssa.CallInstruction:
				if sc := x.Common().StaticCallee(); sc != nil && inRepo(sc) && len(sc.Blocks) > 0 {
					if !leaves(sc, d+1) {
						ok = false
					}
				} else if sc == nil && !x.Common().IsInvoke() {
					if _, isB := x.Common().Value.(*ssa.Builtin); !isB {
						ok = false // a function value: unknown
					}
				}
			}
		})
		return ok
	}
	return leaves(g, depth)
}
