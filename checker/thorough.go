package main

func thoroughExtras(w *World, prop string, extra map[string]interface{}) {}
