package main

import (
	"encoding/json"
	"fmt"
	"os"
	"os/exec"
	"path/filepath"
	"runtime"
	"sort"
	"strings"
	"sync"
)

// Variant is a seeded change to the analysed repository used to test the checker itself: the named
// rules must report a violation on a scratch copy of /repo with the patch applied.
type Variant struct {
	ID      string `json:"id"`
	Source  string `json:"source"`  // "revert of fix <sha>", "sub-agent", "hand-written"
	Reverse bool   `json:"reverse"` // apply patch.diff with -R (reverts of fix commits)
	What    string `json:"what"`
	Expect  []struct {
		Property string `json:"property"`
		Rule     string `json:"rule"`
	} `json:"expect"`
	dir string
}

func loadVariants(verif string) []Variant {
	var out []Variant
	for _, root := range []string{filepath.Join(verif, "variants"), filepath.Join(verif, "seeded")} {
		ents, _ := os.ReadDir(root)
		for _, e := range ents {
			if !e.IsDir() {
				continue
			}
			b, err := os.ReadFile(filepath.Join(root, e.Name(), "meta.json"))
			if err != nil {
				continue
			}
			var v Variant
			if json.Unmarshal(b, &v) != nil {
				continue
			}
			if v.ID == "" {
				v.ID = e.Name()
			}
			v.dir = filepath.Join(root, e.Name())
			out = append(out, v)
		}
	}
	sort.Slice(out, func(i, j int) bool { return out[i].ID < out[j].ID })
	return out
}

// loadBenign: the behaviour-preserving variants that the rules are known to stay silent on.
func loadBenign(verif string) []Variant {
	var out []Variant
	root := filepath.Join(verif, "benign")
	ents, _ := os.ReadDir(root)
	for _, e := range ents {
		if !e.IsDir() {
			continue
		}
		b, err := os.ReadFile(filepath.Join(root, e.Name(), "meta.json"))
		if err != nil {
			continue
		}
		var m struct {
			ID     string `json:"id"`
			Status string `json:"status"`
			Source string `json:"source"`
		}
		if json.Unmarshal(b, &m) != nil || m.Status != "silent" {
			continue
		}
		out = append(out, Variant{ID: "benign-" + e.Name(), Source: m.Source, dir: filepath.Join(root, e.Name())})
	}
	sort.Slice(out, func(i, j int) bool { return out[i].ID < out[j].ID })
	return out
}

type variantResult struct {
	ID     string   `json:"id"`
	Source string   `json:"source"`
	Status string   `json:"status"` // fired | missed | skipped
	Expect []string `json:"expected_rules"`
	Fired  []string `json:"fired_rules"`
	Detail string   `json:"detail"`
}

func copyTree(src, dst string) error {
	return filepath.Walk(src, func(p string, info os.FileInfo, err error) error {
		if err != nil {
			return err
		}
		rel, _ := filepath.Rel(src, p)
		if rel == ".git" || strings.HasPrefix(rel, ".git"+string(filepath.Separator)) {
			if info.IsDir() {
				return filepath.SkipDir
			}
			return nil
		}
		t := filepath.Join(dst, rel)
		if info.IsDir() {
			return os.MkdirAll(t, 0o755)
		}
		if !info.Mode().IsRegular() {
			return nil
		}
		b, err := os.ReadFile(p)
		if err != nil {
			return err
		}
		return os.WriteFile(t, b, 0o644)
	})
}

func runVariant(self, repo, prop string, v Variant, scratchRoot string) variantResult {
	res := variantResult{ID: v.ID, Source: v.Source}
	for _, e := range v.Expect {
		if e.Property == prop {
			res.Expect = append(res.Expect, e.Rule)
		}
	}
	dir := filepath.Join(scratchRoot, v.ID)
	vd := filepath.Join(scratchRoot, v.ID+"-verif")
	defer os.RemoveAll(dir)
	defer os.RemoveAll(vd)
	if err := copyTree(repo, dir); err != nil {
		res.Status, res.Detail = "skipped", "copy failed: "+err.Error()
		return res
	}
	args := []string{"apply", "--whitespace=nowarn"}
	if v.Reverse {
		args = append(args, "-R")
	}
	args = append(args, filepath.Join(v.dir, "patch.diff"))
	cmd := exec.Command("git", args...)
	cmd.Dir = dir
	if out, err := cmd.CombinedOutput(); err != nil {
		res.Status, res.Detail = "skipped", "patch does not apply to the current tree (the tree differs from the one the variant was made for): "+strings.TrimSpace(string(out))
		return res
	}
	os.MkdirAll(vd, 0o755)
	// known findings are honoured in the variant run too
	if b, err := os.ReadFile(filepath.Join(filepath.Dir(filepath.Dir(v.dir)), "known_findings.json")); err == nil {
		os.WriteFile(filepath.Join(vd, "known_findings.json"), b, 0o644)
	}
	c2 := exec.Command(self, "-property", prop, "-tier", "quick", "-repo", dir, "-verif", vd)
	c2.Env = append(os.Environ(), "VERIF_TIER=quick")
	out, _ := c2.CombinedOutput()
	b, err := os.ReadFile(filepath.Join(vd, "evidence", prop+".json"))
	if err != nil {
		// a variant that does not type-check is not a usable variant
		res.Status, res.Detail = "skipped", "no evidence produced: "+firstLine(string(out))
		return res
	}
	var ev struct {
		Coverage struct {
			All []Obligation `json:"all_obligations"`
		} `json:"coverage"`
	}
	json.Unmarshal(b, &ev)
	fired := map[string]bool{}
	for _, o := range ev.Coverage.All {
		if o.Verdict != Holds && o.Known == "" {
			fired[o.Rule] = true
		}
	}
	for r := range fired {
		res.Fired = append(res.Fired, r)
	}
	sort.Strings(res.Fired)
	ok := false
	for _, e := range res.Expect {
		if fired[e] {
			ok = true
		}
	}
	if ok {
		res.Status = "fired"
	} else {
		res.Status = "missed"
		res.Detail = "none of the expected rules reported a violation on the variant"
	}
	return res
}

func firstLine(s string) string {
	if i := strings.Index(s, "\n"); i >= 0 {
		return s[:i]
	}
	return s
}

// thoroughExtras: (a) self-test of the property's rules on seeded variants (each in its own process),
// (b) re-analysis under GOARCH=386 (covers build-constrained files), verdicts must agree.
func thoroughExtras(w *World, prop string, extra map[string]interface{}) {
	self, err := os.Executable()
	if err != nil {
		w.undecided(prop, "R00.selftest", "self-test", 0, "cannot locate the checker binary")
		return
	}
	verif := verifDir
	vars := loadVariants(verif)
	var mine []Variant
	for _, v := range vars {
		for _, e := range v.Expect {
			if e.Property == prop {
				mine = append(mine, v)
				break
			}
		}
	}
	scratch, err := os.MkdirTemp("", "xselcheck-")
	if err != nil {
		w.undecided(prop, "R00.selftest", "self-test", 0, "no scratch directory: "+err.Error())
		return
	}
	defer os.RemoveAll(scratch)
	results := make([]variantResult, len(mine))
	sem := make(chan struct{}, max(1, runtime.NumCPU()/2))
	var wg sync.WaitGroup
	for i, v := range mine {
		wg.Add(1)
		go func(i int, v Variant) {
			defer wg.Done()
			sem <- struct{}{}
			defer func() { <-sem }()
			results[i] = runVariant(self, w.RepoDir, prop, v, scratch)
		}(i, v)
	}
	wg.Wait()
	docRule(prop, "R00.selftest", "self-test", "thorough tier: every seeded variant that is expected to break a rule of this property (reverts of the fix commits, changes written by independent sub-agents, hand-written slips) is applied to a scratch copy of the current tree and re-analysed in its own process; the expected rule must report a violation there. Variants whose patch does not apply to the current tree are skipped (reported, not failed).")
	nf, nm, ns := 0, 0, 0
	for _, r := range results {
		switch r.Status {
		case "fired":
			nf++
			w.check(prop, "R00.selftest", "variant "+r.ID, 0, true, fmt.Sprintf("expected %v, fired %v (%s)", r.Expect, r.Fired, r.Source))
		case "missed":
			nm++
			w.check(prop, "R00.selftest", "variant "+r.ID, 0, false, fmt.Sprintf("expected one of %v to fire on the seeded variant, fired %v: the rule lost its power", r.Expect, r.Fired))
		default:
			ns++
		}
	}
	extra["selftest"] = map[string]interface{}{"variants": len(mine), "fired": nf, "missed": nm, "skipped": ns, "results": results}

	// (c) behaviour-preserving variants must stay silent
	benign := loadBenign(verif)
	bres := make([]variantResult, len(benign))
	for i, v := range benign {
		wg.Add(1)
		go func(i int, v Variant) {
			defer wg.Done()
			sem <- struct{}{}
			defer func() { <-sem }()
			bres[i] = runVariant(self, w.RepoDir, prop, v, scratch)
		}(i, v)
	}
	wg.Wait()
	docRule(prop, "R00.benign", "self-test", "thorough tier: every behaviour-preserving variant kept under /verif/benign with status 'silent' (refactorings written by independent sub-agents that were asked to keep the behaviour identical, and mass renamings of unexported identifiers) is applied to a scratch copy of the current tree; none of this property's rules may report anything on it. Variants recorded as a known limitation of the rules (status 'limitation') are not run.")
	nq, nl := 0, 0
	for _, r := range bres {
		switch {
		case r.Status == "skipped":
		case len(r.Fired) == 0:
			nq++
			w.check(prop, "R00.benign", "behaviour-preserving variant "+r.ID, 0, true, "silent")
		default:
			nl++
			w.check(prop, "R00.benign", "behaviour-preserving variant "+r.ID, 0, false, fmt.Sprintf("rules %v raise an alarm on code that behaves as before: a false alarm of the checker", r.Fired))
		}
	}
	extra["benign"] = map[string]interface{}{"variants": len(benign), "silent": nq, "alarms": nl}

	// (b) GOARCH=386
	vd := filepath.Join(scratch, "arch386")
	os.MkdirAll(vd, 0o755)
	if b, err := os.ReadFile(filepath.Join(verif, "known_findings.json")); err == nil {
		os.WriteFile(filepath.Join(vd, "known_findings.json"), b, 0o644)
	}
	c := exec.Command(self, "-property", prop, "-tier", "quick", "-repo", w.RepoDir, "-verif", vd)
	c.Env = append(os.Environ(), "GOARCH=386", "VERIF_TIER=quick")
	out, _ := c.CombinedOutput()
	b, err := os.ReadFile(filepath.Join(vd, "evidence", prop+".json"))
	docRule(prop, "R00.arch", "matrix", "thorough tier: the same rules evaluated on the program loaded with GOARCH=386 (a second build configuration) give the same set of non-holding obligations.")
	if err != nil {
		w.undecided(prop, "R00.arch", "GOARCH=386 analysis", 0, "no evidence: "+firstLine(string(out)))
		return
	}
	var ev struct {
		Coverage struct {
			All []Obligation `json:"all_obligations"`
		} `json:"coverage"`
	}
	json.Unmarshal(b, &ev)
	other := map[string]bool{}
	for _, o := range ev.Coverage.All {
		if o.Verdict != Holds {
			other[o.Rule+"|"+o.Construct] = true
		}
	}
	mineSet := map[string]bool{}
	for _, o := range w.Obs {
		if o.Property == prop && o.Verdict != Holds && !strings.HasPrefix(o.Rule, "R00.") {
			mineSet[o.Rule+"|"+o.Construct] = true
		}
	}
	same := len(other) == len(mineSet)
	for k := range other {
		if !mineSet[k] {
			same = false
		}
	}
	w.check(prop, "R00.arch", "GOARCH=386 analysis agrees", 0, same, fmt.Sprintf("%d obligations evaluated under GOARCH=386; non-holding sets equal: %v", len(ev.Coverage.All), same))
	extra["arch_matrix"] = []string{runtime.GOARCH + " (default)", "386"}
}
