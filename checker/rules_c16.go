package main

import (
	"fmt"
	"go/token"
	"go/types"
	"sort"
	"strings"

	"golang.org/x/tools/go/ssa"
)

func init() {
	register("C16", checkC16)
	notDecided["C16"] = "the field/value alternation automaton of the JSON adapter over all nestings (a reachability question about a hand-written state machine: model checking, not this family); duplicate keys; several top-level values; that json.Decoder.Token reports every malformed text."
	register("C17", checkC17)
	notDecided["C17"] = "THE CORE: that the flag-driven traversal visits every DOM node exactly once in document order and pairs every start with one end (a property of a four-flag state machine over all tree shapes). Only the guards around the traversal are decided."
}

// constStringArms: If instructions comparing one value with string constants: const -> true-successor.
func constStringArms(fn *ssa.Function) map[string]*ssa.If {
	out := map[string]*ssa.If{}
	allInstrs(fn, func(in ssa.Instruction) {
		ifi, ok := in.(*ssa.If)
		if !ok {
			return
		}
		if s, ok := armKey(ifi); ok {
			if _, dup := out[s]; !dup {
				out[s] = ifi
			}
		}
	})
	return out
}

// armKey: the constant an If compares a value with for equality: a string, or a character of a rune-like value
// (`switch delim { case '{': ...`), rendered as a string.
func armKey(ifi *ssa.If) (string, bool) {
	bo, ok := ifi.Cond.(*ssa.BinOp)
	if !ok || bo.Op != token.EQL {
		return "", false
	}
	for _, o := range []ssa.Value{bo.Y, bo.X} {
		if s, ok := constString(o); ok {
			return s, true
		}
		if k, ok := constInt(o); ok && k >= 0x20 && k < 0x7f {
			if b, isBasic := o.Type().Underlying().(*types.Basic); isBasic && (b.Kind() == types.Int32 || b.Kind() == types.UntypedRune || b.Kind() == types.Uint8) {
				return string(rune(k)), true
			}
		}
	}
	return "", false
}

// armBlocks: the blocks that belong to the arm of an If that compares with a constant: every path to them passes the
// true edge of a comparison with that constant or with another constant of the same multi-value case
// (`case '}', ']':` enters one body from two comparisons). For other conditions: the blocks dominated by the true
// successor.
func armBlocks(ifi *ssa.If) []*ssa.BasicBlock {
	fn := ifi.Parent()
	key, isConst := armKey(ifi)
	var out []*ssa.BasicBlock
	if !isConst {
		tb := ifi.Block().Succs[0]
		for _, b := range fn.Blocks {
			if tb.Dominates(b) {
				out = append(out, b)
			}
		}
		return out
	}
	sets := edgeLabelSets(fn, func(i *ssa.If) (string, bool) { return armKey(i) })
	for _, b := range fn.Blocks {
		if sets[b][key] {
			out = append(out, b)
		}
	}
	return out
}

var edgeLabelCache = map[string]map[*ssa.BasicBlock]map[string]bool{}

// edgeLabelSets is the must-analysis of typeSwitchArms for arbitrary labelled true-edges.
func edgeLabelSets(fn *ssa.Function, label func(*ssa.If) (string, bool)) map[*ssa.BasicBlock]map[string]bool {
	return edgeLabelSetsKind(fn, "const", label)
}

func edgeLabelSetsKind(fn *ssa.Function, kind string, label func(*ssa.If) (string, bool)) map[*ssa.BasicBlock]map[string]bool {
	ck := kind + "|" + fn.String()
	if c, ok := edgeLabelCache[ck]; ok {
		return c
	}
	type set = map[string]bool
	known := map[*ssa.BasicBlock]bool{}
	val := map[*ssa.BasicBlock]set{}
	edge := func(from *ssa.BasicBlock, succIdx int) (string, bool) {
		if len(from.Instrs) == 0 || succIdx != 0 {
			return "", false
		}
		ifi, ok := from.Instrs[len(from.Instrs)-1].(*ssa.If)
		if !ok {
			return "", false
		}
		return label(ifi)
	}
	if len(fn.Blocks) > 0 {
		known[fn.Blocks[0]] = true
		val[fn.Blocks[0]] = set{}
		for changed := true; changed; {
			changed = false
			for _, b := range fn.Blocks[1:] {
				empty, any := false, false
				u := set{}
				for _, p := range b.Preds {
					for si, sc := range p.Succs {
						if sc != b {
							continue
						}
						if k, ok := edge(p, si); ok {
							u[k] = true
							any = true
							continue
						}
						if !known[p] {
							continue
						}
						any = true
						// the false edge of a comparison with k rules k out
						excl, hasExcl := "", false
						if si == 1 && len(p.Succs) == 2 && p.Succs[0] != p.Succs[1] {
							if ifi, isIf := p.Instrs[len(p.Instrs)-1].(*ssa.If); isIf {
								excl, hasExcl = label(ifi)
							}
						}
						n := 0
						for k := range val[p] {
							if hasExcl && k == excl {
								continue
							}
							u[k] = true
							n++
						}
						if n == 0 {
							empty = true
						}
					}
				}
				if !any {
					continue
				}
				if empty {
					u = set{}
				}
				if !known[b] || len(u) != len(val[b]) {
					known[b] = true
					val[b] = u
					changed = true
				}
			}
		}
	}
	edgeLabelCache[ck] = val
	return val
}

// ntLabel: the If tests a value of the grammar's NT type for equality with a constant: the nonterminal's name.
func ntLabel(f *Facts) func(*ssa.If) (string, bool) {
	return func(ifi *ssa.If) (string, bool) {
		bo, ok := ifi.Cond.(*ssa.BinOp)
		if !ok || bo.Op != token.EQL {
			return "", false
		}
		for _, pair := range [][2]ssa.Value{{bo.X, bo.Y}, {bo.Y, bo.X}} {
			if n, isNamed := types.Unalias(pair[0].Type()).(*types.Named); !isNamed || n.Obj().Name() != "NT" {
				continue
			}
			if k, ok := constInt(pair[1]); ok && int(k) < len(f.NTNames) && k >= 0 {
				return f.NTNames[k], true
			}
		}
		return "", false
	}
}

// ntSetFor: the nonterminals for which block b can be reached, as far as the code says so: the block lies in the
// arm(s) of comparisons of an NT value with constants (also multi-value cases), or under a call of a predicate of
// the package on an NT value that returns true exactly in such arms, or under a lookup in a package-level
// map[NT]bool literal. nil when b is not restricted this way.
func (w *World) ntSetFor(b *ssa.BasicBlock) map[string]bool {
	f := w.Facts()
	fn := b.Parent()
	if s := edgeLabelSetsKind(fn, "nt", ntLabel(f))[b]; len(s) > 0 {
		return s
	}
	for _, a := range guardAtoms(b) {
		if !a.Pol {
			continue
		}
		switch x := a.V.(type) {
		case *ssa.Call:
			h := staticCallee(x)
			if h == nil || !inRepo(h) || len(h.Params) != 1 || len(h.Blocks) == 0 {
				continue
			}
			if n, isNamed := types.Unalias(h.Params[0].Type()).(*types.Named); !isNamed || n.Obj().Name() != "NT" {
				continue
			}
			sets := edgeLabelSetsKind(h, "nt", ntLabel(f))
			out := map[string]bool{}
			ok := true
			allInstrs(h, func(in ssa.Instruction) {
				ret, isRet := in.(*ssa.Return)
				if !isRet || len(ret.Results) != 1 {
					return
				}
				switch rv := ret.Results[0].(type) {
				case *ssa.Const:
					if rv.Value != nil && rv.Value.String() == "true" {
						if len(sets[ret.Block()]) == 0 {
							ok = false
						}
						for k := range sets[ret.Block()] {
							out[k] = true
						}
					}
				case *ssa.Phi:
					// `return nt == A || nt == B`: true arrives from the true edges of the comparisons
					for i, e := range rv.Edges {
						pb := rv.Block().Preds[i]
						if c, isC := e.(*ssa.Const); isC && c.Value != nil && c.Value.String() == "true" {
							if ifi, isIf := pb.Instrs[len(pb.Instrs)-1].(*ssa.If); isIf && pb.Succs[0] == rv.Block() {
								if k, isNT := ntLabel(f)(ifi); isNT {
									out[k] = true
									continue
								}
							}
							ok = false
						} else if bo, isBo := e.(*ssa.BinOp); isBo {
							// the last disjunct arrives as its value
							fake := &ssa.If{Cond: bo}
							if k, isNT := ntLabel(f)(fake); isNT {
								out[k] = true
								continue
							}
							ok = false
						} else if c, isC := e.(*ssa.Const); !isC || c.Value == nil || c.Value.String() != "false" {
							ok = false
						}
					}
				case *ssa.BinOp:
					fake := &ssa.If{Cond: rv}
					if k, isNT := ntLabel(f)(fake); isNT {
						out[k] = true
					} else {
						ok = false
					}
				default:
					ok = false
				}
			})
			if ok && len(out) > 0 {
				return out
			}
		case *ssa.Lookup:
			ld, isLd := x.X.(*ssa.UnOp)
			if !isLd {
				continue
			}
			g, isG := ld.X.(*ssa.Global)
			if !isG {
				continue
			}
			entries, ok := w.globalMapLiteral(g)
			if !ok {
				continue
			}
			out := map[string]bool{}
			for _, e := range entries {
				k, ok1 := constInt(e.Key)
				c, ok2 := e.Val.(*ssa.Const)
				if ok1 && ok2 && c.Value != nil && c.Value.String() == "true" && int(k) < len(f.NTNames) {
					out[f.NTNames[k]] = true
				}
			}
			if len(out) > 0 {
				return out
			}
		}
	}
	return nil
}

func checkC16(w *World) {
	const P = "C16"
	docRule(P, "R16.1", "D", "end of input: when the token reader reports io.EOF while a container is still open (the state stack is non-empty) the adapter returns a different, non-EOF error; io.EOF reaches the store (which turns it into success) only with an empty stack.")
	docRule(P, "R16.2", "T siblings", "delimiter arms: '{' and '[' push a state and return a start element named by the documented constants #obj / #arr (end flag false); '}' and ']' pop a state and return an end event (nil node, end flag true); the pushed states differ; the four arms are the only push/pop sites.")
	docRule(P, "R16.3", "X+T", "scalar rendering: the type switch covers bool, float64, json.Number and string, the default (JSON null) returns \"null\"; floats are rendered with strconv.FormatFloat(x,'g',-1,64) (shortest representation that reads back to the same double); scalars are returned as character-data nodes, keys as element nodes in no namespace.")
	pull := w.pullOf("ReadJson")
	if pull == nil {
		w.undecided(P, "R16.1", "JSON adapter", 0, "parser.jsonParser.Pull not found")
		return
	}
	// R16.1
	var tokenCall *ssa.Call
	allInstrs(pull, func(in ssa.Instruction) {
		if c, ok := in.(*ssa.Call); ok && staticCallee(c) != nil && strings.HasSuffix(funcFullName(staticCallee(c)), "json.Decoder).Token") {
			tokenCall = c
		}
	})
	if tokenCall == nil {
		w.undecided(P, "R16.1", "JSON adapter", pull.Pos(), "no Decoder.Token call")
	} else {
		var errV ssa.Value
		for _, rr := range referrers(tokenCall) {
			if ex, ok := rr.(*ssa.Extract); ok && ex.Index == 1 {
				errV = ex
			}
		}
		found := false
		// a returned error with the conditions under which it is that value: the return's own guards, or - when the
		// error variable was reassigned on some paths before a shared return - the guards of each incoming path
		type errCase struct {
			val   ssa.Value
			atoms []atom
		}
		allInstrs(pull, func(in ssa.Instruction) {
			ret, ok := in.(*ssa.Return)
			if !ok || len(ret.Results) != 3 || isNilConst(ret.Results[2]) {
				return
			}
			var cases []errCase
			if phi, isPhi := ret.Results[2].(*ssa.Phi); isPhi {
				for i, e := range phi.Edges {
					pb := phi.Block().Preds[i]
					at := guardAtoms(pb)
					if len(pb.Instrs) > 0 {
						if ifi, isIf := pb.Instrs[len(pb.Instrs)-1].(*ssa.If); isIf && len(pb.Succs) == 2 && pb.Succs[0] != pb.Succs[1] {
							at = append(at, valueAtoms(ifi.Cond, pb.Succs[0] == phi.Block())...)
						}
					}
					cases = append(cases, errCase{e, at})
				}
			} else {
				cases = append(cases, errCase{ret.Results[2], guardAtoms(ret.Block())})
			}
			for _, ec := range cases {
				if ec.val == errV {
					continue
				}
				eof := false
				for _, a := range ec.atoms {
					switch x := a.V.(type) {
					case *ssa.BinOp:
						for _, pair := range [][2]ssa.Value{{x.X, x.Y}, {x.Y, x.X}} {
							if pair[0] == errV && x.Op == token.EQL && a.Pol {
								if ld, ok := pair[1].(*ssa.UnOp); ok {
									if g, ok := ld.X.(*ssa.Global); ok && g.Name() == "EOF" {
										eof = true
									}
								}
							}
						}
					case *ssa.Call:
						if staticCallee(x) != nil && funcFullName(staticCallee(x)) == "errors.Is" && a.Pol && x.Call.Args[0] == errV {
							eof = true
						}
					}
				}
				// the state stack is known to be non-empty (any spelling of the length test)
				depth, feasible := minFeasible(ec.atoms, func(v ssa.Value) bool {
					c, ok := stripConv(v).(*ssa.Call)
					return ok && isLenOf(c, nil)
				})
				open := feasible && depth >= 1
				// the returned error must not itself be io.EOF
				notEOF := true
				if ld, ok := ec.val.(*ssa.UnOp); ok {
					if g, ok := ld.X.(*ssa.Global); ok && g.Name() == "EOF" {
						notEOF = false
					}
				}
				// ... nor wrap it (errors.Is would still see io.EOF and the store would end the document normally)
				if sliceContains(ec.val, func(v ssa.Value) bool { return v == errV }) {
					notEOF = false
				}
				if eof && open && notEOF {
					found = true
				}
			}
		})
		w.check(P, "R16.1", "EOF with open containers", tokenCall.Pos(), found, fmt.Sprintf("a non-EOF error is returned when the reader ends while the state stack is non-empty: %v (json.Decoder.Token reports plain io.EOF for truncated input such as `{\"a\": [1, 2`)", found))
	}
	w.floor(P, "R16.1", 1)

	// R16.2
	jroles := w.jsonRolesOf(pull)
	scope := w.pullScopeOf(pull, func(g *ssa.Function) bool {
		return g == jroles.push || g == jroles.pop || g == jroles.current || jroles.setter[g] != "" || jroles.getter[g] != ""
	})
	arms := scope.arms()
	// push/pop methods by effect
	kindOf := func(fn *ssa.Function) string {
		k := ""
		allInstrs(fn, func(in ssa.Instruction) {
			switch x := in.(type) {
			case *ssa.Call:
				if b, ok := x.Call.Value.(*ssa.Builtin); ok && b.Name() == "append" {
					k = "push"
				}
			case *ssa.Slice:
				if x.High != nil && isLenMinusConst(x.High, nil) {
					if k == "" {
						k = "pop"
					}
				}
			}
		})
		return k
	}
	pushedStates := map[string]int64{}
	names := map[string]string{"{": "#obj", "[": "#arr"}
	for _, d := range []string{"{", "}", "[", "]"} {
		ifi := arms[d]
		if ifi == nil {
			w.check(P, "R16.2", "delimiter "+d, pull.Pos(), false, "no arm for delimiter "+d)
			continue
		}
		pushes, pops := 0, 0
		var ret *ssa.Return
		// the arm is read through the parts it calls, each with the constants this arm passes
		av := scope.armView(ifi)
		isOwn := map[*ssa.BasicBlock]bool{}
		for _, b := range av.own {
			isOwn[b] = true
		}
		for _, b := range av.blocks {
			for _, in := range b.Instrs {
				switch x := in.(type) {
				case *ssa.Call:
					if sc := staticCallee(x); sc != nil && fnPkgKey(sc) == "parser" {
						switch kindOf(sc) {
						case "push":
							pushes++
							if len(x.Call.Args) == 2 {
								if k, ok := constInt(av.resolve(x.Call.Args[1])); ok {
									pushedStates[d] = k
								}
							}
						case "pop":
							pops++
						}
					}
				case *ssa.Return:
					if ret == nil && isOwn[b] {
						ret = x
					}
				}
			}
		}
		var retNode, retEnd ssa.Value
		if ret != nil {
			var okR bool
			if retNode, retEnd, okR = scope.effRet(ret); !okR {
				ret = nil
			}
		}
		if ret == nil {
			w.check(P, "R16.2", "delimiter "+d, ifPos(ifi), false, "arm has no return")
			continue
		}
		endFlag := ""
		if c, ok := retEnd.(*ssa.Const); ok && c.Value != nil {
			endFlag = c.Value.String()
		}
		if want, opening := names[d]; opening {
			got := ""
			for i, rv := range av.returned(retNode) {
				g := ""
				if mi, ok := rv.(*ssa.MakeInterface); ok {
					backSlice(mi.X, func(v ssa.Value) bool {
						if s, ok := constString(av.resolve(v)); ok && strings.HasPrefix(s, "#") {
							g = s
						}
						return true
					})
				}
				if i > 0 && g != got {
					g = ""
				}
				got = g
			}
			ok := pushes == 1 && pops == 0 && endFlag == "false" && got == want
			w.check(P, "R16.2", "delimiter "+d, ifPos(ifi), ok, fmt.Sprintf("pushes %d, pops %d, end flag %s, element name %q (required: one push, no pop, false, %q)", pushes, pops, endFlag, got, want))
		} else {
			ok := pushes == 0 && pops == 1 && endFlag == "true" && isNilConst(retNode)
			w.check(P, "R16.2", "delimiter "+d, ifPos(ifi), ok, fmt.Sprintf("pushes %d, pops %d, end flag %s, nil node: %v (required: no push, one pop, true, nil)", pushes, pops, endFlag, isNilConst(retNode)))
		}
	}
	// the delimiter arms are taken only for json.Delim tokens (a string value "{" is not a delimiter)
	for _, d := range []string{"{", "}", "[", "]"} {
		ifi := arms[d]
		if ifi == nil {
			continue
		}
		delimGuard := false
		for _, a := range scope.guards(ifi.Block()) {
			if ex, ok := a.V.(*ssa.Extract); ok && ex.Index == 1 && a.Pol {
				if ta, ok := ex.Tuple.(*ssa.TypeAssert); ok && ta.AssertedType.String() == "encoding/json.Delim" {
					delimGuard = true
				}
			}
		}
		w.check(P, "R16.2", "delimiter "+d+" is recognised by token type", ifPos(ifi), delimGuard, fmt.Sprintf("the comparison with %q happens only for tokens of type json.Delim: %v (otherwise the JSON string %q is taken for punctuation)", d, delimGuard, d))
	}
	so, okO := pushedStates["{"]
	sa, okA := pushedStates["["]
	w.check(P, "R16.2", "object and array push distinct states", pull.Pos(), okO && okA && so != sa, fmt.Sprintf("state pushed for '{': %d, for '[': %d", so, sa))
	w.floor(P, "R16.2", 9)

	// R16.3
	var render *ssa.Function
	scope.all(func(in ssa.Instruction) {
		if c, ok := in.(*ssa.Call); ok {
			if sc := staticCallee(c); sc != nil && fnPkgKey(sc) == "parser" && sc.Signature.Results().Len() == 1 && isStringType(sc.Signature.Results().At(0).Type()) && (len(sc.Params) == 1 || (len(sc.Params) == 2 && sc.Signature.Recv() != nil)) {
				// a function of the token, or a method of the adapter that is handed the token
				if _, isIface := sc.Params[len(sc.Params)-1].Type().Underlying().(*types.Interface); isIface {
					render = sc
				}
			}
		}
	})
	if render == nil {
		w.undecided(P, "R16.3", "scalar rendering", pull.Pos(), "rendering function not found")
	} else {
		seen := map[string]bool{}
		allInstrs(render, func(in ssa.Instruction) {
			ta, ok := in.(*ssa.TypeAssert)
			if !ok || !ta.CommaOk {
				return
			}
			seen[ta.AssertedType.String()] = true
			if ta.AssertedType.String() == "float64" {
				okFmt := false
				for _, b := range render.Blocks {
					under := false
					for _, a := range guardAtoms(b) {
						if ex, ok := a.V.(*ssa.Extract); ok && ex.Tuple == ssa.Value(ta) && ex.Index == 1 && a.Pol {
							under = true
						}
					}
					if !under {
						continue
					}
					for _, in2 := range b.Instrs {
						if c, ok := in2.(*ssa.Call); ok && staticCallee(c) != nil && funcFullName(staticCallee(c)) == "strconv.FormatFloat" {
							fm, _ := constInt(c.Call.Args[1])
							pr, _ := constInt(c.Call.Args[2])
							bs, _ := constInt(c.Call.Args[3])
							okFmt = fm == 'g' && pr == -1 && bs == 64
						}
					}
				}
				w.check(P, "R16.3", "float rendering", ta.Pos(), okFmt, fmt.Sprintf("strconv.FormatFloat(x,'g',-1,64): %v", okFmt))
				// universal form: every value returned under the float64 arm is that FormatFloat of the decoded number
				// itself, and the number never passes through an integer (a whole-number fast path prints -0 as 0)
				var val ssa.Value
				for _, rr := range referrers(ta) {
					if ex, ok := rr.(*ssa.Extract); ok && ex.Index == 0 {
						val = ex
					}
				}
				allRet, nRet := true, 0
				toInt := false
				for _, b := range render.Blocks {
					under := false
					for _, a := range guardAtoms(b) {
						if ex, ok := a.V.(*ssa.Extract); ok && ex.Tuple == ssa.Value(ta) && ex.Index == 1 && a.Pol {
							under = true
						}
					}
					if !under {
						continue
					}
					for _, in2 := range b.Instrs {
						switch x := in2.(type) {
						case *ssa.Return:
							nRet++
							c, isCall := x.Results[0].(*ssa.Call)
							if !isCall || staticCallee(c) == nil || funcFullName(staticCallee(c)) != "strconv.FormatFloat" || c.Call.Args[0] != val {
								allRet = false
							}
						case *ssa.Convert:
							if fb, ok := x.X.Type().Underlying().(*types.Basic); ok && fb.Info()&types.IsFloat != 0 {
								if tb, ok := x.Type().Underlying().(*types.Basic); ok && tb.Info()&types.IsInteger != 0 {
									toInt = true
								}
							}
						}
					}
				}
				w.check(P, "R16.3", "float rendering on every path", ta.Pos(), nRet > 0 && allRet && !toInt, fmt.Sprintf("returns under the float64 arm: %d, each is FormatFloat of the decoded number itself: %v; the number is converted to an integer on the way: %v", nRet, allRet, toInt))
			}
		})
		var missing []string
		for _, t := range []string{"bool", "float64", "encoding/json.Number", "string"} {
			if !seen[t] {
				missing = append(missing, t)
			}
		}
		w.check(P, "R16.3", "scalar kinds covered", render.Pos(), len(missing) == 0, fmt.Sprintf("missing arms: %v", missing))
		nullOK := false
		allInstrs(render, func(in ssa.Instruction) {
			if ret, ok := in.(*ssa.Return); ok && len(ret.Results) == 1 {
				if s, ok := constString(ret.Results[0]); ok && s == "null" {
					failed := 0
					for _, a := range guardAtoms(ret.Block()) {
						if ex, ok := a.V.(*ssa.Extract); ok && ex.Index == 1 && !a.Pol {
							failed++
						}
					}
					nullOK = failed >= 4
				}
			}
		})
		w.check(P, "R16.3", "null rendering", render.Pos(), nullOK, fmt.Sprintf("\"null\" is returned when no scalar arm matched: %v", nullOK))
	}
	// node kinds of the remaining returns
	kinds := map[string]int{}
	scope.all(func(in ssa.Instruction) {
		ret, ok := in.(*ssa.Return)
		if !ok {
			return
		}
		retNode, _, okR := scope.effRet(ret)
		if !okR {
			return
		}
		if mi, ok := retNode.(*ssa.MakeInterface); ok && mi.Parent() == ret.Parent() {
			for _, k := range []string{"Attribute", "CharData", "Element"} {
				if w.implementsNode(mi.X.Type(), k) {
					kinds[k]++
					break
				}
			}
		}
	})
	// a part shared by several arms produces its node once per arm
	for g, sites := range scope.merged() {
		allInstrs(g, func(in ssa.Instruction) {
			ret, ok := in.(*ssa.Return)
			if !ok || len(ret.Results) == 0 {
				return
			}
			if mi, ok := ret.Results[0].(*ssa.MakeInterface); ok {
				for _, k := range []string{"Attribute", "CharData", "Element"} {
					if w.implementsNode(mi.X.Type(), k) {
						kinds[k] += len(sites)
						break
					}
				}
			}
		})
	}
	var ks []string
	for k, n := range kinds {
		ks = append(ks, fmt.Sprintf("%s:%d", k, n))
	}
	sort.Strings(ks)
	spaceConst := false
	if m := w.method("parser", "JsonElement", "Space"); m != nil {
		allInstrs(m, func(in ssa.Instruction) {
			if ret, ok := in.(*ssa.Return); ok && len(ret.Results) == 1 {
				if s, ok := constString(ret.Results[0]); ok && s == "" {
					spaceConst = true
				}
			}
		})
	}
	w.check(P, "R16.3", "node kinds produced", pull.Pos(), kinds["CharData"] >= 1 && kinds["Element"] >= 3 && kinds["Attribute"] == 0 && spaceConst, fmt.Sprintf("returns %v; element namespace is the constant \"\": %v", ks, spaceConst))
	// numbers must arrive as float64 (UseNumber would hand the literal spelling through the json.Number arm)
	useNumber := false
	w.forAllFuncs("parser", func(fn *ssa.Function) {
		allInstrs(fn, func(in ssa.Instruction) {
			if c, ok := in.(*ssa.Call); ok && staticCallee(c) != nil && funcFullName(staticCallee(c)) == "(*encoding/json.Decoder).UseNumber" {
				useNumber = true
			}
		})
	})
	w.check(P, "R16.3", "numbers are decoded to float64", pull.Pos(), !useNumber, fmt.Sprintf("Decoder.UseNumber is called: %v (then 1.0, 1e2, 1.50 keep their source spelling instead of the shortest numeral that reads back to the same double)", useNumber))
	w.floor(P, "R16.3", 5)
	w.checkJsonScheduling(P, pull, scope)
	w.freshStackStates(P, pull)
	// the store keeps every event of the stream: an empty string is still a text node
	w.include(P, "C10", "R10.8")
	w.include(P, "C17", "R17.5") // the adapters of package parser share no growing package-level state
}

func checkC17(w *World) {
	const P = "C17"
	docRule(P, "R17.1", "X+T", "the switch over html.NodeType in the HTML pull adapter has an arm for each of the 7 node types of golang.org/x/net/html; ElementNode, TextNode, CommentNode return the matching node kind (end flag false) and mark the node emitted; ErrorNode and RawNode return errors; DocumentNode requires a DoctypeNode first child, else an error.")
	docRule(P, "R17.2", "F+T", "no namespaces: the Space() methods of the HTML element and attribute types return the constant \"\"; element and attribute names both pass through the same prefix-stripping helper; attributes named xmlns or starting with xmlns: are skipped, and nothing else is.")
	docRule(P, "R17.3", "D", "end events are guarded as the pairing needs: the synthetic end for a childless element is scheduled iff FirstChild == nil; the climb returns one end per step to a parent; io.EOF is returned only when the climb reaches a node without parent. (Guards, not a proof of pairing.)")
	pull := w.pullOf("ReadHtml")
	if pull == nil {
		w.undecided(P, "R17.1", "HTML adapter", 0, "parser.htmlParser.Pull not found")
		return
	}
	// the adapter = Pull and the functions of the package it was split into (methods on the same receiver and plain
	// helpers reached by static calls); every rule below looks at all of them, each function with its own guards
	scopeSet := map[*ssa.Function]bool{}
	var scope []*ssa.Function
	for g := range staticReach(pull, func(x *ssa.Function) bool { return fnPkgKey(x) == "parser" }) {
		if fnPkgKey(g) == "parser" {
			scopeSet[g] = true
			scope = append(scope, g)
		}
	}
	sortFuncs(scope)
	allScope := func(visit func(ssa.Instruction)) {
		for _, g := range scope {
			allInstrs(g, visit)
		}
	}
	recvT := pull.Params[0].Type()
	isRecv := func(v ssa.Value) bool {
		p, ok := v.(*ssa.Parameter)
		return ok && scopeSet[p.Parent()] && len(p.Parent().Params) > 0 && p == p.Parent().Params[0] && types.Identical(p.Type(), recvT)
	}
	// roles of the adapter's state fields, by what Pull does under each flag (never by field name):
	//   cursor: the field of type *html.Node; self-close flag: tested true => an end event is returned and the cursor
	//   stays; emitted flag: tested true => the cursor advances to FirstChild/NextSibling; climb flag: => to Parent.
	flagRole := map[int]string{}
	cursorField := -1
	isRecvField := func(v ssa.Value) (*ssa.FieldAddr, bool) {
		ld, ok := v.(*ssa.UnOp)
		if !ok {
			return nil, false
		}
		fa, ok := ld.X.(*ssa.FieldAddr)
		if !ok || !isRecv(fa.X) {
			return nil, false
		}
		return fa, true
	}
	allScope(func(in ssa.Instruction) {
		if fa, ok := in.(*ssa.FieldAddr); ok && isRecv(fa.X) {
			if pt, ok := fa.Type().(*types.Pointer).Elem().(*types.Pointer); ok {
				if n, ok := pt.Elem().(*types.Named); ok && n.Obj().Name() == "Node" && n.Obj().Pkg() != nil && n.Obj().Pkg().Path() == "golang.org/x/net/html" {
					cursorField = fa.Field
				}
			}
		}
	})
	allScope(func(in ssa.Instruction) {
		ifi, ok := in.(*ssa.If)
		if !ok {
			return
		}
		fa, ok := isRecvField(ifi.Cond)
		if !ok {
			return
		}
		if b, isB := fa.Type().(*types.Pointer).Elem().Underlying().(*types.Basic); !isB || b.Kind() != types.Bool {
			return
		}
		endRet, moves := false, map[string]bool{}
		tb := ifi.Block().Succs[0]
		var region []*ssa.BasicBlock
		for _, b := range ifi.Parent().Blocks {
			if tb.Dominates(b) {
				region = append(region, b)
			}
		}
		{
			withCallees(region, "parser", pull, func(bin ssa.Instruction) {
				switch x := bin.(type) {
				case *ssa.Return:
					if len(x.Results) == 3 && isNilConst(x.Results[0]) && isNilConst(x.Results[2]) {
						if c, ok := x.Results[1].(*ssa.Const); ok && c.Value != nil && c.Value.String() == "true" {
							endRet = true
						}
					}
				case *ssa.Store:
					if sfa, ok := x.Addr.(*ssa.FieldAddr); ok && isRecv(sfa.X) && sfa.Field == cursorField {
						if ld, ok := x.Val.(*ssa.UnOp); ok {
							if lfa, ok := ld.X.(*ssa.FieldAddr); ok {
								moves[fieldName(lfa)] = true
							}
						}
						// a two-hop move (parent's next sibling) counts as a move to the parent
						if sliceContains(x.Val, func(v ssa.Value) bool {
							if ld, ok := v.(*ssa.UnOp); ok {
								if lfa, ok := ld.X.(*ssa.FieldAddr); ok && fieldName(lfa) == "Parent" {
									return true
								}
							}
							return false
						}) {
							moves["Parent"] = true
						}
					}
				}
			})
		}
		switch {
		case endRet && len(moves) == 0:
			flagRole[fa.Field] = "selfclose"
		case moves["Parent"]:
			flagRole[fa.Field] = "climb"
		case moves["FirstChild"] || moves["NextSibling"]:
			flagRole[fa.Field] = "emitted"
		}
	})
	isFlag := func(fa *ssa.FieldAddr, role string) bool {
		return isRecv(fa.X) && flagRole[fa.Field] == role
	}
	// node type constants of x/net/html
	typeNames := map[int64]string{}
	var htmlPkg *types.Package
	for _, p := range w.Prog.AllPackages() {
		if p.Pkg.Path() == "golang.org/x/net/html" {
			htmlPkg = p.Pkg
		}
	}
	if htmlPkg == nil {
		w.undecided(P, "R17.1", "HTML adapter", pull.Pos(), "golang.org/x/net/html not loaded")
		return
	}
	nt := htmlPkg.Scope().Lookup("NodeType")
	for _, name := range htmlPkg.Scope().Names() {
		if c, ok := htmlPkg.Scope().Lookup(name).(*types.Const); ok && c.Exported() && nt != nil && types.Identical(c.Type(), nt.Type()) {
			if v, ok := constantInt(c); ok {
				typeNames[v] = name
			}
		}
	}
	arms := map[string]*ssa.If{}
	allScope(func(in ssa.Instruction) {
		ifi, ok := in.(*ssa.If)
		if !ok {
			return
		}
		bo, ok := ifi.Cond.(*ssa.BinOp)
		if !ok || bo.Op != token.EQL {
			return
		}
		if n, ok := bo.X.Type().(*types.Named); !ok || n.Obj().Name() != "NodeType" {
			return
		}
		if k, ok := constInt(bo.Y); ok {
			if _, dup := arms[typeNames[k]]; !dup {
				arms[typeNames[k]] = ifi
			}
		}
	})
	want := map[string]string{"ElementNode": "Element", "TextNode": "CharData", "CommentNode": "Comment", "ErrorNode": "error", "RawNode": "error", "DocumentNode": "doc", "DoctypeNode": "skip"}
	var tns []string
	for _, n := range typeNames {
		tns = append(tns, n)
	}
	sort.Strings(tns)
	for _, tn := range tns {
		ifi := arms[tn]
		if ifi == nil {
			w.check(P, "R17.1", "html."+tn, pull.Pos(), false, "no arm for html."+tn+": such nodes are reported as end events / skipped silently")
			continue
		}
		kind := want[tn]
		var ret *ssa.Return
		emitted := false
		for _, in := range ifi.Block().Succs[0].Instrs {
			if r, ok := in.(*ssa.Return); ok && ret == nil {
				ret = r
			}
			if st, ok := in.(*ssa.Store); ok {
				if c, ok := st.Val.(*ssa.Const); ok && c.Value != nil && c.Value.String() == "true" {
					if fa, ok := st.Addr.(*ssa.FieldAddr); ok {
						if isFlag(fa, "emitted") {
							emitted = true
						}
					}
				}
			}
		}
		switch kind {
		case "Element", "CharData", "Comment":
			// the return may be in a successor block (element arm has an inner if)
			if ret == nil {
				for _, b := range armBlocks(ifi) {
					for _, in := range b.Instrs {
						if r, ok := in.(*ssa.Return); ok && ret == nil {
							ret = r
						}
						if st, ok := in.(*ssa.Store); ok {
							if c, ok := st.Val.(*ssa.Const); ok && c.Value != nil && c.Value.String() == "true" {
								if fa, ok := st.Addr.(*ssa.FieldAddr); ok && isFlag(fa, "emitted") {
									emitted = true
								}
							}
						}
					}
				}
			}
			ok := false
			detail := "no return"
			if ret != nil && len(ret.Results) == 3 {
				if mi, isMI := ret.Results[0].(*ssa.MakeInterface); isMI {
					endFalse := false
					if c, isC := ret.Results[1].(*ssa.Const); isC && c.Value != nil && c.Value.String() == "false" {
						endFalse = true
					}
					impl := w.implementsNode(mi.X.Type(), kind)
					wrong := false
					for _, k := range []string{"Attribute", "Namespace", "ProcInst", "CharData", "Comment"} {
						if k != kind && w.implementsNode(mi.X.Type(), k) {
							wrong = true
						}
					}
					ok = impl && !wrong && endFalse && emitted
					detail = fmt.Sprintf("returns %s (implements node.%s: %v, other kinds: %v), end flag false: %v, marks the node emitted: %v", mi.X.Type().String(), kind, impl, wrong, endFalse, emitted)
				}
			}
			w.check(P, "R17.1", "html."+tn, ifPos(ifi), ok, detail)
		case "error":
			ok := ret != nil && len(ret.Results) == 3 && !isNilConst(ret.Results[2]) && isNilConst(ret.Results[0])
			w.check(P, "R17.1", "html."+tn, ifPos(ifi), ok, fmt.Sprintf("returns an error: %v", ok))
		case "doc":
			// an error return guarded by Type != DoctypeNode
			errRet := false
			for _, b := range armBlocks(ifi) {
				for _, in := range b.Instrs {
					if r, ok := in.(*ssa.Return); ok && len(r.Results) == 3 && !isNilConst(r.Results[2]) {
						errRet = true
					}
				}
			}
			w.check(P, "R17.1", "html."+tn, ifPos(ifi), errRet, fmt.Sprintf("a document without a doctype first child is an error: %v", errRet))
		case "skip":
			w.check(P, "R17.1", "html."+tn, ifPos(ifi), true, "doctype is skipped")
		}
	}
	w.floor(P, "R17.1", 7)

	// R17.2
	for _, tn := range []string{"HtmlElement", "HtmlAttribute"} {
		m := w.method("parser", tn, "Space")
		ok := false
		if m != nil {
			allInstrs(m, func(in ssa.Instruction) {
				if ret, isRet := in.(*ssa.Return); isRet && len(ret.Results) == 1 {
					if s, isS := constString(ret.Results[0]); isS && s == "" {
						ok = true
					}
				}
			})
		}
		w.check(P, "R17.2", tn+".Space()", w.fnPos(m), ok, fmt.Sprintf("returns the constant \"\": %v", ok))
	}
	// the attribute builder and the stripping helper
	var attrBuilder, strip *ssa.Function
	allScope(func(in ssa.Instruction) {
		c, ok := in.(*ssa.Call)
		if !ok {
			return
		}
		sc := staticCallee(c)
		if sc == nil || fnPkgKey(sc) != "parser" || sc.Signature.Results().Len() != 1 {
			return
		}
		if sl, ok := sc.Signature.Results().At(0).Type().Underlying().(*types.Slice); ok && w.implementsNode(sl.Elem(), "Attribute") {
			attrBuilder = sc
		}
		if isStringType(sc.Signature.Results().At(0).Type()) && len(sc.Params) == 1 && isStringType(sc.Params[0].Type()) {
			strip = sc
		}
	})
	if attrBuilder == nil || strip == nil {
		w.undecided(P, "R17.2", "attribute builder / prefix stripping", pull.Pos(), fmt.Sprintf("attribute builder found: %v; stripping helper called on the element name: %v", attrBuilder != nil, strip != nil))
	} else {
		same := false
		for g := range staticReach(attrBuilder, func(x *ssa.Function) bool { return fnPkgKey(x) == "parser" }) {
			allInstrs(g, func(in ssa.Instruction) {
				if c, ok := in.(*ssa.Call); ok && staticCallee(c) == strip {
					same = true
				}
			})
		}
		w.check(P, "R17.2", "element and attribute names use the same prefix-stripping helper", attrBuilder.Pos(), same, fmt.Sprintf("%s is applied to attribute names too: %v", strip.Name(), same))
		// skip conditions
		skipEq, skipPrefix := false, false
		other := 0
		// the xmlns tests look at the attribute's full key: made on the name the stripping helper returned they also
		// drop a:xmlns (local part "xmlns") and a:xmlns:b, which are ordinary attributes of the parse tree
		var stripped []string
		var viaStrip func(v ssa.Value, in *ssa.Function, depth int) bool
		viaStrip = func(v ssa.Value, in *ssa.Function, depth int) bool {
			if depth > 3 {
				return false
			}
			found := false
			backSlice(v, func(x ssa.Value) bool {
				switch y := x.(type) {
				case *ssa.Call:
					if staticCallee(y) == strip {
						found = true
					}
					return false
				case *ssa.Parameter:
					// a predicate helper: what its callers pass
					for i, p := range in.Params {
						if p != y {
							continue
						}
						for _, site := range w.callersOf(in) {
							if i < len(site.Call.Args) && viaStrip(site.Call.Args[i], site.Parent(), depth+1) {
								found = true
							}
						}
					}
				}
				return !found
			})
			return found
		}
		// every string test on the attribute name, in the builder and in the predicates it calls (not the stripping helper)
		var scan []*ssa.Function
		for g := range staticReach(attrBuilder, func(x *ssa.Function) bool { return fnPkgKey(x) == "parser" && x != strip }) {
			if fnPkgKey(g) == "parser" && g != strip {
				scan = append(scan, g)
			}
		}
		for _, g := range scan {
			allInstrs(g, func(in ssa.Instruction) {
				switch c := in.(type) {
				case *ssa.BinOp:
					if c.Op != token.EQL && c.Op != token.NEQ {
						return
					}
					s, ok := constString(c.Y)
					if !ok {
						s, ok = constString(c.X)
					}
					if ok {
						if s == "xmlns" {
							skipEq = true
							opnd := c.X
							if _, isK := c.X.(*ssa.Const); isK {
								opnd = c.Y
							}
							if viaStrip(opnd, g, 0) {
								stripped = append(stripped, w.pos(c.Pos())+" in "+g.Name())
							}
						} else {
							other++
						}
					}
				case *ssa.Call:
					if staticCallee(c) != nil && funcFullName(staticCallee(c)) == "strings.HasPrefix" {
						if s, ok := constString(c.Call.Args[1]); ok && s == "xmlns:" {
							skipPrefix = true
							if viaStrip(c.Call.Args[0], g, 0) {
								stripped = append(stripped, w.pos(c.Pos())+" in "+g.Name())
							}
						} else if bo, ok := c.Call.Args[1].(*ssa.BinOp); ok && bo.Op == token.ADD {
							a, _ := constString(bo.X)
							b, _ := constString(bo.Y)
							if a+b == "xmlns:" {
								skipPrefix = true
								if viaStrip(c.Call.Args[0], g, 0) {
									stripped = append(stripped, w.pos(c.Pos())+" in "+g.Name())
								}
							}
						} else {
							other++
						}
					}
				}
			})
		}
		sort.Strings(stripped)
		w.check(P, "R17.2", "the xmlns tests are made on the attribute's full key", attrBuilder.Pos(), len(stripped) == 0, fmt.Sprintf("xmlns tests applied to the name after prefix stripping: %s", orElse(strings.Join(stripped, "; "), "none")))
		w.check(P, "R17.2", "xmlns attributes are skipped and nothing else", attrBuilder.Pos(), skipEq && skipPrefix && other == 0, fmt.Sprintf("skips name == \"xmlns\": %v; names with prefix \"xmlns:\": %v; other name-based conditions: %d", skipEq, skipPrefix, other))
		// universal form: whether an attribute is kept depends on nothing but its own name. Every branch of the
		// builder is the loop bound, a test of a string against a constant, or the result of a string predicate;
		// a branch on anything else (a set of names seen so far, a counter, the value) drops or duplicates
		// attributes that the parse tree has.
		var foreign []string
		for _, g := range scan {
			allInstrs(g, func(in ssa.Instruction) {
				iff, ok := in.(*ssa.If)
				if !ok {
					return
				}
				if !nameOnlyCondition(iff.Cond, 0) {
					foreign = append(foreign, w.pos(iff.Pos())+" in "+g.Name())
				}
			})
		}
		sort.Strings(foreign)
		w.check(P, "R17.2", "an attribute is kept or skipped by its own name only", attrBuilder.Pos(), len(foreign) == 0, fmt.Sprintf("branches of the attribute builder that test something other than the loop bound or the attribute's name: %s", orElse(strings.Join(foreign, "; "), "none")))
	}
	w.floor(P, "R17.2", 5)

	// R17.3
	synth := false
	allScope(func(in ssa.Instruction) {
		st, ok := in.(*ssa.Store)
		if !ok {
			return
		}
		fa, ok := st.Addr.(*ssa.FieldAddr)
		if !ok || !isFlag(fa, "selfclose") {
			return
		}
		// the flag may be assigned the test itself: flag = (FirstChild == nil)
		if bo, ok := st.Val.(*ssa.BinOp); ok && isNilConst(bo.Y) && bo.Op == token.EQL {
			if ld, ok := bo.X.(*ssa.UnOp); ok {
				if fa2, ok := ld.X.(*ssa.FieldAddr); ok && fieldName(fa2) == "FirstChild" {
					synth = true
				}
			}
			return
		}
		c, ok := st.Val.(*ssa.Const)
		if !ok || c.Value == nil || c.Value.String() != "true" {
			return
		}
		for _, a := range guardAtoms(st.Block()) {
			if bo, ok := a.V.(*ssa.BinOp); ok && isNilConst(bo.Y) && bo.Op == token.EQL && a.Pol {
				if ld, ok := bo.X.(*ssa.UnOp); ok {
					if fa2, ok := ld.X.(*ssa.FieldAddr); ok && fieldName(fa2) == "FirstChild" {
						synth = true
					}
				}
			}
		}
	})
	// ... and under nothing else that depends on the DOM (iff)
	extra := ""
	allScope(func(in ssa.Instruction) {
		st, ok := in.(*ssa.Store)
		if !ok {
			return
		}
		fa, ok := st.Addr.(*ssa.FieldAddr)
		if !ok || !isFlag(fa, "selfclose") {
			return
		}
		c, ok := st.Val.(*ssa.Const)
		if !ok || c.Value == nil || c.Value.String() != "true" {
			return
		}
		for _, a := range guardAtoms(st.Block()) {
			backSlice(a.V, func(v ssa.Value) bool {
				if ld, ok := v.(*ssa.UnOp); ok {
					if fa2, ok := ld.X.(*ssa.FieldAddr); ok {
						switch fieldName(fa2) {
						case "NextSibling", "PrevSibling", "Parent", "LastChild":
							extra = fieldName(fa2)
						}
					}
				}
				return true
			})
		}
	})
	w.check(P, "R17.3", "synthetic end only for childless elements", pull.Pos(), synth && extra == "", fmt.Sprintf("the self-closing flag is set under FirstChild == nil: %v; additionally conditioned on %s (then a childless element in that position never gets its end event and everything after it nests one level too deep)", synth, orNone(extra)))
	eofGuard := false
	eofReturns, eofGuarded := 0, 0
	allScope(func(in ssa.Instruction) {
		ret, ok := in.(*ssa.Return)
		if !ok || len(ret.Results) != 3 {
			return
		}
		ld, ok := ret.Results[2].(*ssa.UnOp)
		if !ok {
			return
		}
		if g, ok := ld.X.(*ssa.Global); !ok || g.Name() != "EOF" {
			return
		}
		eofReturns++
		for _, a := range guardAtoms(ret.Block()) {
			if bo, ok := a.V.(*ssa.BinOp); ok && isNilConst(bo.Y) && bo.Op == token.EQL && a.Pol {
				if l2, ok := bo.X.(*ssa.UnOp); ok {
					if fa2, ok := l2.X.(*ssa.FieldAddr); ok && fieldName(fa2) == "Parent" {
						if _, direct := fa2.X.(*ssa.UnOp); direct {
							// x.node.Parent == nil (the current node itself, not its parent's parent)
							if inner, ok := fa2.X.(*ssa.UnOp).X.(*ssa.FieldAddr); ok && inner.Field == cursorField {
								eofGuard = true
								eofGuarded++
							}
						}
					}
				}
			}
		}
	})
	w.check(P, "R17.3", "io.EOF only at a node without parent", pull.Pos(), eofGuard && eofReturns == eofGuarded, fmt.Sprintf("%d returns of io.EOF, %d of them under `current node has no parent` (an earlier EOF drops whatever follows, e.g. comments after </html>)", eofReturns, eofGuarded))
	w.floor(P, "R17.3", 2)

	// R17.4 traversal steps
	docRule(P, "R17.4", "D", "steps of the pre-order walk: the cursor moves to FirstChild / NextSibling / Parent only under a non-nil test of that same link (except from the document node to its FirstChild and from the doctype to its NextSibling, which html.Parse guarantees); after emitting a node the NextSibling step is taken only when there is no FirstChild (children before siblings); the climb flag is set only when the link it replaces is nil; from the document node the walk starts at FirstChild. The node's text is handed on verbatim (TextNode/CommentNode Data, no re-decoding); the prefix-stripping helper strips at every ':' position including 0.")
	type step struct {
		st   *ssa.Store
		link string
	}
	var steps []step
	allScope(func(in ssa.Instruction) {
		st, ok := in.(*ssa.Store)
		if !ok {
			return
		}
		fa, ok := st.Addr.(*ssa.FieldAddr)
		if !ok || !isRecv(fa.X) {
			return
		}
		if _, isNodePtr := fa.Type().(*types.Pointer).Elem().(*types.Pointer); !isNodePtr {
			return
		}
		ld, ok := st.Val.(*ssa.UnOp)
		if !ok {
			return
		}
		lfa, ok := ld.X.(*ssa.FieldAddr)
		if !ok {
			return
		}
		steps = append(steps, step{st, fieldName(lfa)})
	})
	linkTests := func(b *ssa.BasicBlock) map[string]bool { // link -> known non-nil (true) / nil (false)
		out := map[string]bool{}
		for _, a := range guardAtoms(b) {
			bo, ok := a.V.(*ssa.BinOp)
			if !ok || !isNilConst(bo.Y) {
				continue
			}
			ld, ok := bo.X.(*ssa.UnOp)
			if !ok {
				continue
			}
			lfa, ok := ld.X.(*ssa.FieldAddr)
			if !ok {
				continue
			}
			nonNil := (bo.Op == token.NEQ) == a.Pol
			out[fieldName(lfa)] = nonNil
		}
		return out
	}
	armOf := func(b *ssa.BasicBlock) string {
		for name, ifi := range arms {
			if ifi.Parent() != b.Parent() {
				continue // dominance is a relation inside one function
			}
			if ifi.Block().Succs[0] == b || ifi.Block().Succs[0].Dominates(b) {
				return name
			}
		}
		return ""
	}
	for _, s := range steps {
		lt := linkTests(s.st.Block())
		arm := armOf(s.st.Block())
		nonNil, tested := lt[s.link]
		ok := tested && nonNil
		why := fmt.Sprintf("step to %s under a non-nil test of it: %v", s.link, ok)
		switch {
		case arm == "DocumentNode":
			ok = s.link == "FirstChild"
			why = "from the document node the walk goes to " + s.link + " (must be FirstChild: the doctype and anything before <html> come first)"
		case arm == "DoctypeNode":
			ok = s.link == "NextSibling"
			why = "from the doctype the walk goes to " + s.link + " (must be NextSibling)"
		case s.link == "NextSibling" && ok:
			// either after a climb (Parent step in a dominating block) or when there is no first child
			climbed := false
			for _, s2 := range steps {
				if s2.link == "Parent" && instrAfter(s2.st, s.st) {
					climbed = true
				}
			}
			// ... or the sibling is the parent's (both hops in one assignment)
			if ld, ok := s.st.Val.(*ssa.UnOp); ok {
				if lfa, ok := ld.X.(*ssa.FieldAddr); ok {
					if bl, ok := lfa.X.(*ssa.UnOp); ok {
						if bfa, ok := bl.X.(*ssa.FieldAddr); ok && fieldName(bfa) == "Parent" {
							climbed = true
						}
					}
				}
			}
			fc, fcTested := lt["FirstChild"]
			if !climbed && !(fcTested && !fc) {
				ok = false
				why = "the step to NextSibling after emitting a node is not conditional on FirstChild == nil: children would be skipped"
			}
		}
		w.check(P, "R17.4", fmt.Sprintf("traversal step to %s (%s)", s.link, orElse(arm, "advance/climb")), s.st.Pos(), ok, why)
	}
	// verbatim text
	for _, tn := range []string{"TextNode", "CommentNode"} {
		ifi := arms[tn]
		if ifi == nil {
			continue
		}
		verb := false
		for _, b := range armBlocks(ifi) {
			for _, in := range b.Instrs {
				ret, ok := in.(*ssa.Return)
				if !ok || len(ret.Results) != 3 {
					continue
				}
				mi, ok := ret.Results[0].(*ssa.MakeInterface)
				if !ok {
					continue
				}
				okv := true
				nData := 0
				backSlice(mi.X, func(v ssa.Value) bool {
					if c, isCall := v.(*ssa.Call); isCall {
						okv = false
						_ = c
					}
					if ld, isLd := v.(*ssa.UnOp); isLd {
						if lfa, isFA := ld.X.(*ssa.FieldAddr); isFA && fieldName(lfa) == "Data" {
							nData++
						}
					}
					return true
				})
				verb = okv && nData > 0
			}
		}
		w.check(P, "R17.4", "html."+tn+" data is passed on verbatim", ifPos(ifi), verb, fmt.Sprintf("the node value is the DOM node's Data without further processing: %v (html.Parse has already decoded character references)", verb))
	}
	if strip != nil {
		strict := ""
		allInstrs(strip, func(in ssa.Instruction) {
			bo, ok := in.(*ssa.BinOp)
			if !ok {
				return
			}
			c, ok := bo.X.(*ssa.Call)
			if !ok || staticCallee(c) == nil || !strings.HasPrefix(funcFullName(staticCallee(c)), "strings.Index") {
				return
			}
			k, isK := constInt(bo.Y)
			if !isK || !isCmpOp(bo.Op) {
				return
			}
			good := (bo.Op == token.GEQ && k == 0) || (bo.Op == token.GTR && k == -1) || (bo.Op == token.NEQ && k == -1) || (bo.Op == token.LSS && k == 0) || (bo.Op == token.EQL && k == -1)
			if !good {
				strict = fmt.Sprintf("index %s %d", bo.Op, k)
			}
		})
		w.check(P, "R17.4", "prefix stripping covers a colon at any position", strip.Pos(), strict == "", "comparison of the colon position: "+orElse(strict, "absent or inclusive of position 0"))
		// the prefix ends at the FIRST colon (x:y:z -> y:z, as with the two-way split the tokenizer's names get)
		last := ""
		allInstrs(strip, func(in ssa.Instruction) {
			if c, ok := in.(*ssa.Call); ok && staticCallee(c) != nil {
				n := funcFullName(staticCallee(c))
				if strings.HasPrefix(n, "strings.LastIndex") || n == "strings.Split" || n == "strings.Fields" || n == "path.Base" {
					last = n
				}
				if n == "strings.SplitN" || n == "strings.SplitAfterN" {
					if k, ok := constInt(c.Call.Args[2]); !ok || k != 2 {
						last = n + " with a limit other than 2"
					}
				}
			}
		})
		w.check(P, "R17.4", "prefix stripping cuts at the first colon", strip.Pos(), last == "", "search from the end / full split: "+orNone(last)+" (a name with two colons must lose only its first part)")
	}
	// every move of the cursor is along a link of the current node: FirstChild, NextSibling or Parent read from it
	// (a cursor computed any other way - a search for the first element, a cached node - skips or repeats nodes)
	if cursorField >= 0 {
		allScope(func(in ssa.Instruction) {
			st, ok := in.(*ssa.Store)
			if !ok {
				return
			}
			fa, ok := st.Addr.(*ssa.FieldAddr)
			if !ok || !isRecv(fa.X) || fa.Field != cursorField {
				return
			}
			okLink := false
			if ld, ok := st.Val.(*ssa.UnOp); ok {
				if lfa, ok := ld.X.(*ssa.FieldAddr); ok {
					switch fieldName(lfa) {
					case "FirstChild", "NextSibling", "Parent":
						// of the current node
						if l2, ok := lfa.X.(*ssa.UnOp); ok {
							if cfa, ok := l2.X.(*ssa.FieldAddr); ok && cfa.Field == cursorField {
								okLink = true
							}
						}
					}
				}
			}
			if !okLink {
				w.check(P, "R17.4", "cursor assignment", st.Pos(), false, "the cursor is set to "+describe(st.Val)+", not to the FirstChild/NextSibling/Parent of the current node")
			}
		})
	}
	w.floorSites(P, "R17.4", 7)
	w.adapterSharedState(P)
	w.htmlReadsCallersBytes(P)
}

// adapterSharedState (R17.5): the pull adapters keep their state per parser. A package-level slice may be used as a
// shared empty value, but nothing may be appended to it or stored through it: two parsers that are pulled in turns
// (the command with -c N, a server) would otherwise see each other's attributes.
func (w *World) adapterSharedState(P string) {
	docRule(P, "R17.5", "E ownership", "no function of package parser appends to, or stores an element into, a slice or map held in a package-level variable (outside package initialisation): the package-level empty lists are only ever assigned, never grown, so the attribute and namespace lists of one parser are never backed by memory another parser appends into.")
	var bad []string
	n := 0
	w.forAllFuncs("parser", func(fn *ssa.Function) {
		if fn.Name() == "init" || strings.HasPrefix(fn.Name(), "init#") {
			return
		}
		n++
		fromGlobal := func(v ssa.Value) string {
			name := ""
			seen := map[ssa.Value]bool{}
			var walk func(v ssa.Value, d int)
			walk = func(v ssa.Value, d int) {
				if seen[v] || d > 8 || name != "" {
					return
				}
				seen[v] = true
				switch x := v.(type) {
				case *ssa.UnOp:
					if g, ok := x.X.(*ssa.Global); ok && inRepoGlobal(g) {
						name = g.Name()
					}
				case *ssa.Phi:
					for _, e := range x.Edges {
						walk(e, d+1)
					}
				case *ssa.Slice:
					walk(x.X, d+1)
				case *ssa.Call:
					if b, ok := x.Call.Value.(*ssa.Builtin); ok && b.Name() == "append" {
						walk(x.Call.Args[0], d+1)
					}
				case *ssa.ChangeType:
					walk(x.X, d+1)
				}
			}
			walk(v, 0)
			return name
		}
		allInstrs(fn, func(in ssa.Instruction) {
			switch x := in.(type) {
			case *ssa.Call:
				if b, ok := x.Call.Value.(*ssa.Builtin); ok && b.Name() == "append" {
					if g := fromGlobal(x.Call.Args[0]); g != "" {
						bad = append(bad, fmt.Sprintf("%s: append onto the package-level %s in %s", w.pos(x.Pos()), g, fn.Name()))
					}
				}
			case *ssa.Store:
				if ia, ok := x.Addr.(*ssa.IndexAddr); ok {
					if g := fromGlobal(ia.X); g != "" {
						bad = append(bad, fmt.Sprintf("%s: store into the package-level %s in %s", w.pos(x.Pos()), g, fn.Name()))
					}
				}
			case *ssa.MapUpdate:
				if g := fromGlobal(x.Map); g != "" {
					bad = append(bad, fmt.Sprintf("%s: update of the package-level %s in %s", w.pos(x.Pos()), g, fn.Name()))
				}
			}
		})
	})
	sort.Strings(bad)
	w.check(P, "R17.5", "package parser: package-level lists are never grown", 0, len(bad) == 0 && n > 0, fmt.Sprintf("%d functions scanned; writes into package-level slices or maps: %s", n, orElse(strings.Join(bad, "; "), "none")))
	w.floor(P, "R17.5", 1)
}

// htmlReadsCallersBytes (R17.6): html.Parse implements the HTML5 encoding sniffing for a byte stream it is given;
// the tree the property compares with is the one html.Parse builds from the caller's reader. A transcoding layer in
// front of it (charset.NewReader guesses from the first 1024 bytes) changes the characters of documents whose first
// non-ASCII byte comes later.
func (w *World) htmlReadsCallersBytes(P string) {
	docRule(P, "R17.6", "F", "ReadHtml hands the caller's reader itself to html.Parse: nothing wraps, transcodes or pre-reads the input.")
	rh := w.member("parser", "ReadHtml")
	if rh == nil || len(rh.Params) == 0 {
		w.undecided(P, "R17.6", "parser.ReadHtml", 0, "not found")
		return
	}
	direct, opts, n := true, true, 0
	for g := range staticReach(rh, func(x *ssa.Function) bool { return fnPkgKey(x) == "parser" }) {
		allInstrs(g, func(in ssa.Instruction) {
			c, ok := in.(*ssa.Call)
			if !ok || staticCallee(c) == nil {
				return
			}
			fn := funcFullName(staticCallee(c))
			if fn == "golang.org/x/net/html.Parse" || fn == "golang.org/x/net/html.ParseWithOptions" {
				n++
				if g != rh || c.Call.Args[0] != ssa.Value(rh.Params[0]) {
					direct = false
				}
				if len(c.Call.Args) > 1 && !defaultParseOptions(c.Call.Args[1]) {
					opts = false
				}
			}
		})
	}
	w.check(P, "R17.6", "html.Parse reads the caller's bytes", rh.Pos(), n > 0 && direct, fmt.Sprintf("calls of html.Parse: %d; each is given ReadHtml's own reader parameter: %v", n, direct))
	// the walk starts at the root of that tree: the node the adapter is constructed with is html.Parse's result, or is
	// reached from it by following FirstChild/NextSibling links only - not picked by a search that skips nodes
	startOK, startWhy := false, "no adapter value built from the parse result"
	allInstrs(rh, func(in ssa.Instruction) {
		st, ok := in.(*ssa.Store)
		if !ok {
			return
		}
		fa, ok := st.Addr.(*ssa.FieldAddr)
		if !ok {
			return
		}
		if _, isAlloc := fa.X.(*ssa.Alloc); !isAlloc {
			return
		}
		pt, ok := st.Val.Type().(*types.Pointer)
		if !ok {
			return
		}
		if nn, ok := pt.Elem().(*types.Named); !ok || nn.Obj().Name() != "Node" || nn.Obj().Pkg() == nil || nn.Obj().Pkg().Path() != "golang.org/x/net/html" {
			return
		}
		// follow the value back to the Parse call
		v := st.Val
		startOK, startWhy = false, "the first node of the walk is "+describe(v)
		for steps := 0; steps < 4; steps++ {
			if ex, isEx := v.(*ssa.Extract); isEx && ex.Index == 0 {
				if c, isC := ex.Tuple.(*ssa.Call); isC && staticCallee(c) != nil && strings.HasPrefix(funcFullName(staticCallee(c)), "golang.org/x/net/html.Parse") {
					startOK, startWhy = true, "the result of html.Parse (through unconditional FirstChild/NextSibling links at most)"
				}
				break
			}
			ld, isLd := v.(*ssa.UnOp)
			if !isLd || ld.Op != token.MUL {
				break
			}
			f2, isF := ld.X.(*ssa.FieldAddr)
			if !isF {
				break
			}
			name := fieldName(f2)
			if name != "FirstChild" && name != "NextSibling" {
				break
			}
			v = f2.X
		}
	})
	w.check(P, "R17.6", "the walk starts at the root of the parse tree", rh.Pos(), startOK, startWhy+" (a search for the first element skips comments in front of <html>)")
	w.check(P, "R17.6", "the HTML5 algorithm runs with its default options", rh.Pos(), n > 0 && opts, fmt.Sprintf("html.Parse, or html.ParseWithOptions without options (scripting enabled, no fragment context): %v (with scripting disabled the content of <noscript> is parsed as markup instead of one text node)", opts))
	w.floor(P, "R17.6", 3)
}

// defaultParseOptions: the variadic option list is empty, or holds only ParseOptionEnableScripting(true).
func defaultParseOptions(v ssa.Value) bool {
	if k, ok := v.(*ssa.Const); ok && k.Value == nil {
		return true
	}
	sl, ok := v.(*ssa.Slice)
	if !ok {
		return false
	}
	al, ok := sl.X.(*ssa.Alloc)
	if !ok {
		return false
	}
	good := true
	for _, r := range referrers(al) {
		ia, ok := r.(*ssa.IndexAddr)
		if !ok {
			continue
		}
		for _, st := range storesInto(ia) {
			c, ok := st.Val.(*ssa.Call)
			if !ok || staticCallee(c) == nil || funcFullName(staticCallee(c)) != "golang.org/x/net/html.ParseOptionEnableScripting" {
				good = false
				continue
			}
			if k, ok := c.Call.Args[0].(*ssa.Const); !ok || k.Value == nil || k.Value.String() != "true" {
				good = false
			}
		}
	}
	return good
}

func fieldName(fa *ssa.FieldAddr) string {
	if pt, ok := fa.X.Type().Underlying().(*types.Pointer); ok {
		if st, ok := pt.Elem().Underlying().(*types.Struct); ok {
			return st.Field(fa.Field).Name()
		}
	}
	return ""
}

func constantInt(c *types.Const) (int64, bool) {
	v := c.Val()
	if v == nil {
		return 0, false
	}
	var i int64
	if _, err := fmt.Sscanf(v.ExactString(), "%d", &i); err != nil {
		return 0, false
	}
	return i, true
}

// nameOnlyCondition: the condition is a loop bound (integer comparison), a comparison of strings or bytes of a string
// with constants, a strings.* predicate, a package-local predicate over strings, or a boolean combination of those.
func nameOnlyCondition(c ssa.Value, depth int) bool {
	if depth > 6 {
		return false
	}
	switch x := c.(type) {
	case *ssa.Const:
		return true
	case *ssa.Phi:
		for _, e := range x.Edges {
			if !nameOnlyCondition(e, depth+1) {
				return false
			}
		}
		return true
	case *ssa.UnOp:
		if x.Op == token.NOT {
			return nameOnlyCondition(x.X, depth+1)
		}
	case *ssa.BinOp:
		switch x.Op {
		case token.LSS, token.LEQ, token.GTR, token.GEQ:
			// loop bounds and length tests: integers only, one side a length or a counter
			if b, ok := x.X.Type().Underlying().(*types.Basic); ok && b.Info()&types.IsInteger != 0 {
				return isLenOf(x.Y, nil) || isLenOf(x.X, nil) || ascendingCounter(x.X) || ascendingCounter(x.Y) || descendingCounter(x.X) || descendingCounter(x.Y)
			}
		case token.EQL, token.NEQ:
			if isStringType(x.X.Type()) || isByteOrRune(x.X.Type()) {
				_, cx := x.X.(*ssa.Const)
				_, cy := x.Y.(*ssa.Const)
				return cx || cy
			}
			if b, ok := x.X.Type().Underlying().(*types.Basic); ok && b.Info()&types.IsInteger != 0 {
				// index results of string searches compared with constants (strings.Index(...) >= 0 is LSS/GEQ above)
				_, cx := x.X.(*ssa.Const)
				_, cy := x.Y.(*ssa.Const)
				return (cx || cy) && (fromStringsCall(x.X) || fromStringsCall(x.Y) || isLenOf(x.X, nil) || isLenOf(x.Y, nil))
			}
		}
	case *ssa.Call:
		sc := staticCallee(x)
		if sc == nil {
			return false
		}
		if sc.Pkg != nil && sc.Pkg.Pkg.Path() == "strings" {
			return true
		}
		if fnPkgKey(sc) == "parser" {
			for _, p := range sc.Params {
				if !isStringType(p.Type()) {
					return false
				}
			}
			return true
		}
	case *ssa.Extract:
		// comma-ok of strings.Cut and friends
		if call, ok := x.Tuple.(*ssa.Call); ok {
			if sc := staticCallee(call); sc != nil && sc.Pkg != nil && sc.Pkg.Pkg.Path() == "strings" {
				return true
			}
			// the verdict of a per-attribute helper of the package: its own branches are examined by the same rule
			// (it belongs to the functions reachable from the builder)
			if sc := staticCallee(call); sc != nil && fnPkgKey(sc) == "parser" {
				return true
			}
		}
	}
	return false
}

func fromStringsCall(v ssa.Value) bool {
	if c, ok := v.(*ssa.Call); ok {
		if sc := staticCallee(c); sc != nil && sc.Pkg != nil && sc.Pkg.Pkg.Path() == "strings" {
			return true
		}
	}
	return false
}

func isByteOrRune(t types.Type) bool {
	b, ok := t.Underlying().(*types.Basic)
	return ok && (b.Kind() == types.Uint8 || b.Kind() == types.Int32)
}
