package main

import (
	"fmt"
	"go/token"
	"go/types"
	"sort"
	"strings"

	"golang.org/x/tools/go/ssa"
)

// freshStackStates (R16.5): the state of a container starts from the zero state. The adapter's flags (key/value
// alternation, pending end) are read from the state of the *enclosing* container after a pop, whatever its kind, so a
// state that enters the stack with flags left over from an earlier container closes members that do not exist. A push
// therefore appends a newly built state; a slot taken back by re-slicing beyond the current length must have every field
// written before it is used.
func (w *World) freshStackStates(P string, pull *ssa.Function) {
	docRule(P, "R16.5", "D typestate", "a state enters the JSON adapter's stack freshly built: the stack grows by append of a new state value, or, when a slot is taken back by re-slicing beyond the current length, the whole element (every field of the state struct) is written in the same function; a recycled slot that keeps a flag of the container that used it before emits end events for members that are not there.")
	recv, ok := pull.Params[0].Type().Underlying().(*types.Pointer)
	if !ok {
		w.undecided(P, "R16.5", "JSON adapter", pull.Pos(), "receiver is not a pointer")
		return
	}
	st, ok := recv.Elem().Underlying().(*types.Struct)
	if !ok {
		w.undecided(P, "R16.5", "JSON adapter", pull.Pos(), "receiver is not a struct")
		return
	}
	// the stack fields: slices of structs
	stack := map[string]*types.Struct{}
	for i := 0; i < st.NumFields(); i++ {
		if sl, ok := st.Field(i).Type().Underlying().(*types.Slice); ok {
			el := sl.Elem()
			if p, isP := el.Underlying().(*types.Pointer); isP {
				el = p.Elem()
			}
			if es, ok := el.Underlying().(*types.Struct); ok {
				stack[st.Field(i).Name()] = es
			}
		}
	}
	if len(stack) == 0 {
		w.undecided(P, "R16.5", "JSON adapter", pull.Pos(), "no slice-of-state field")
		return
	}
	fromStack := func(v ssa.Value) (string, bool) {
		name, found := "", false
		backSlice(v, func(x ssa.Value) bool {
			if ld, ok := x.(*ssa.UnOp); ok && ld.Op == token.MUL {
				if fa, ok := ld.X.(*ssa.FieldAddr); ok {
					if _, is := stack[fieldName(fa)]; is && types.Identical(fa.X.Type(), pull.Params[0].Type()) {
						name, found = fieldName(fa), true
					}
				}
			}
			_, isCall := x.(*ssa.Call)
			return !isCall && !found
		})
		return name, found
	}
	n := 0
	w.forAllFuncs("parser", func(fn *ssa.Function) {
		allInstrs(fn, func(in ssa.Instruction) {
			switch x := in.(type) {
			case *ssa.Call:
				b, ok := x.Call.Value.(*ssa.Builtin)
				if !ok || b.Name() != "append" || len(x.Call.Args) != 2 {
					return
				}
				name, is := fromStack(x.Call.Args[0])
				if !is {
					return
				}
				n++
				// appended elements: a fresh composite (stores into a new array), not elements read back from the stack
				stale := false
				backSlice(x.Call.Args[1], func(v ssa.Value) bool {
					if ld, ok := v.(*ssa.UnOp); ok && ld.Op == token.MUL {
						if ia, ok := ld.X.(*ssa.IndexAddr); ok {
							if _, is := fromStack(ia.X); is {
								stale = true
							}
						}
					}
					_, isCall := v.(*ssa.Call)
					return !isCall
				})
				w.check(P, "R16.5", "push onto "+name+" in "+fn.Name(), x.Pos(), !stale, fmt.Sprintf("the appended state is built at the push, not copied from a slot of the stack: %v", !stale))
			case *ssa.Slice:
				name, is := fromStack(x.X)
				if !is {
					return
				}
				if x.High == nil || isLenMinusConst(x.High, nil) {
					return // s[lo:] and s[:len-k] never expose old elements
				}
				if k, isK := constInt(x.High); isK && k == 0 {
					return
				}
				if isLenOf(x.High, nil) {
					return
				}
				n++
				// growth by re-slicing: every field of the element must be written in this function
				es := stack[name]
				written := map[string]bool{}
				whole := false
				allInstrs(fn, func(in2 ssa.Instruction) {
					s, ok := in2.(*ssa.Store)
					if !ok {
						return
					}
					switch a := s.Addr.(type) {
					case *ssa.IndexAddr:
						if _, is := fromStack(a.X); is {
							whole = true
						}
					case *ssa.FieldAddr:
						if ia, ok := a.X.(*ssa.IndexAddr); ok {
							if _, is := fromStack(ia.X); is {
								written[fieldName(a)] = true
							}
						}
					}
				})
				var missing []string
				if !whole {
					for i := 0; i < es.NumFields(); i++ {
						if !written[es.Field(i).Name()] {
							missing = append(missing, es.Field(i).Name())
						}
					}
				}
				sort.Strings(missing)
				w.check(P, "R16.5", "slot of "+name+" taken back by re-slicing in "+fn.Name(), x.Pos(), len(missing) == 0, fmt.Sprintf("fields of the recycled state that keep the value of the container that used the slot before: %s", orElse(strings.Join(missing, ", "), "none")))
			}
		})
	})
	w.floor(P, "R16.5", 1)
}

// callersOf lists the static call sites of fn in its own package.
func (w *World) callersOf(fn *ssa.Function) []*ssa.Call {
	var out []*ssa.Call
	w.forAllFuncs(fnPkgKey(fn), func(g *ssa.Function) {
		allInstrs(g, func(in ssa.Instruction) {
			if c, ok := in.(*ssa.Call); ok && staticCallee(c) == fn {
				out = append(out, c)
			}
		})
	})
	return out
}
