#!/bin/sh
# usage: check.sh <property id> <quick|thorough> ; or: check.sh --replay <file>
# Builds the checker when the binary is missing or older than its sources, then analyses /repo's working tree.
set -u
cd "$(dirname "$0")" || exit 1
export GOFLAGS=-mod=mod GOPROXY=off GOSUMDB=off GOTOOLCHAIN=local
unset GOWORK
need=0
[ -x bin/xselcheck ] || need=1
if [ $need -eq 0 ]; then
  for f in checker/*.go checker/go.mod; do
    [ "$f" -nt bin/xselcheck ] && need=1
  done
fi
if [ $need -eq 1 ]; then
  mkdir -p bin
  (cd checker && go build -o ../bin/xselcheck .) || { echo "ERROR: checker build failed"; exit 1; }
fi
if [ "${1:-}" = "--replay" ]; then
  exec bin/xselcheck -replay "$2"
fi
exec bin/xselcheck -property "$1" -tier "${2:-quick}"
